package main

import (
	"fmt"
	"go/ast"
	"go/parser"
	"go/types"
	"strings"

	"golang.org/x/tools/go/ssa"
)

// producesAddr reports whether an SSA value is represented Go-side as *Addr.
func producesAddr(v ssa.Value) bool {
	switch x := v.(type) {
	case *ssa.Alloc:
		return !x.Heap
	case *ssa.FieldAddr, *ssa.IndexAddr, *ssa.Global:
		return true
	}
	return false
}

// addrKeys returns the heap components a store through v may change.
func (f *Frame) addrKeys(v ssa.Value, keys map[string]bool) {
	s := f.vc.sorts
	switch x := v.(type) {
	case *ssa.Alloc:
		if !x.Heap {
			keys[fmt.Sprintf("L:f%d:%s", f.fnum(), x.Name())] = true
			return
		}
	case *ssa.FieldAddr:
		if producesAddr(x.X) {
			f.addrKeys(x.X, keys)
			return
		}
		if _, isFV := x.X.(*ssa.FreeVar); isFV {
			keys["*"] = true
			return
		}
		pt := x.X.Type().Underlying().(*types.Pointer).Elem()
		st := pt.Underlying().(*types.Struct)
		fs := s.sortOf(st.Field(x.Field).Type())
		keys[f.compKey("F:", s.sortOf(pt)+"."+st.Field(x.Field).Name(), fs)] = true
		return
	case *ssa.IndexAddr:
		switch xt := x.X.Type().Underlying().(type) {
		case *types.Slice:
			es := s.sortOf(xt.Elem())
			if s.sortOf(x.X.Type()) == sSl {
				keys[f.compKey("E:", sortTag(es), es)] = true
			} else {
				keys[f.verKey(x.X)] = true
			}
			return
		case *types.Pointer:
			if producesAddr(x.X) {
				f.addrKeys(x.X, keys)
				return
			}
			srt := s.sortOf(xt.Elem())
			keys[f.compKey("D:", sortTag(srt), srt)] = true
			return
		}
	case *ssa.Global:
		srt := s.sortOf(derefType(x.Type()))
		keys[f.compKey("G:", x.String(), srt)] = true
		return
	case *ssa.FreeVar:
		for i, fv := range f.fn.FreeVars {
			if fv == x && i < len(f.bind) {
				if a, ok := f.bind[i].(*Addr); ok && a.Kind == aCell {
					keys[a.Key] = true
					return
				}
			}
		}
		keys["*"] = true
		return
	}
	// a Ref-valued pointer
	if pt, ok := v.Type().Underlying().(*types.Pointer); ok {
		if st, isS := pt.Elem().Underlying().(*types.Struct); isS {
			ss := s.sortOf(pt.Elem())
			for i := 0; i < st.NumFields(); i++ {
				keys[f.compKey("F:", ss+"."+st.Field(i).Name(), s.sortOf(st.Field(i).Type()))] = true
			}
			return
		}
		srt := s.sortOf(pt.Elem())
		keys[f.compKey("D:", sortTag(srt), srt)] = true
		return
	}
	keys["*"] = true
}

// modKeysStatic resolves the components named by a callee's modifies clause
// without evaluating object references.
func (f *Frame) modKeysStatic(con *Contract, callee *ssa.Function, sig *types.Signature, keys map[string]bool) {
	if !con.ModSet {
		if !(con.Pure || con.Extern) {
			keys["*"] = true
		}
		return
	}
	s := f.vc.sorts
	ptypes := map[string]types.Type{}
	if callee != nil {
		for _, p := range callee.Params {
			ptypes[p.Name()] = p.Type()
		}
	} else if sig != nil {
		if sig.Recv() != nil {
			ptypes[sig.Recv().Name()] = sig.Recv().Type()
			ptypes["recv"] = sig.Recv().Type()
		}
		for i := 0; i < sig.Params().Len(); i++ {
			ptypes[sig.Params().At(i).Name()] = sig.Params().At(i).Type()
		}
	}
	var typeOf func(x ast.Expr) types.Type
	typeOf = func(x ast.Expr) types.Type {
		switch n := x.(type) {
		case *ast.Ident:
			return ptypes[n.Name]
		case *ast.ParenExpr:
			return typeOf(n.X)
		case *ast.StarExpr:
			if t := typeOf(n.X); t != nil {
				return derefType(t)
			}
		case *ast.SelectorExpr:
			if t := typeOf(n.X); t != nil {
				if st, _ := structOf(t); st != nil {
					for i := 0; i < st.NumFields(); i++ {
						if st.Field(i).Name() == n.Sel.Name {
							return st.Field(i).Type()
						}
					}
				}
			}
		case *ast.IndexExpr:
			if t := typeOf(n.X); t != nil {
				switch u := t.Underlying().(type) {
				case *types.Map:
					return u.Elem()
				case *types.Slice:
					return u.Elem()
				}
			}
		case *ast.CallExpr:
			if id, ok := n.Fun.(*ast.Ident); ok && id.Name == "old" {
				return typeOf(n.Args[0])
			}
		}
		return nil
	}
	for _, m := range con.Modifies {
		m = strings.TrimSpace(m)
		if m == "*" {
			keys["*"] = true
			continue
		}
		if m == "fresh" || m == "nothing" {
			continue
		}
		if strings.HasPrefix(m, "since(") {
			keys["*"] = true
			continue
		}
		ex, err := parser.ParseExpr(m)
		if err != nil {
			keys["*"] = true
			continue
		}
		ok := false
		if sel, isSel := ex.(*ast.SelectorExpr); isSel {
			if id, isId := sel.X.(*ast.Ident); isId && id.Name == "ghost" {
				if srt, known := parsedGhosts[sel.Sel.Name]; known {
					key := "X:ghost." + sel.Sel.Name
					f.vc.ensureSortsIn(srt)
					f.vc.compSrt[key] = normSort(srt)
					keys[key] = true
					continue
				}
			}
		}
		switch n := ex.(type) {
		case *ast.SelectorExpr:
			if t := typeOf(n.X); t != nil {
				if st, ptr := structOf(t); st != nil && ptr {
					for i := 0; i < st.NumFields(); i++ {
						if st.Field(i).Name() == n.Sel.Name {
							keys[f.compKey("F:", s.sortOf(derefType(t))+"."+n.Sel.Name, s.sortOf(st.Field(i).Type()))] = true
							ok = true
						}
					}
				}
			}
		case *ast.StarExpr:
			if t := typeOf(n.X); t != nil {
				srt := s.sortOf(derefType(t))
				keys[f.compKey("D:", sortTag(srt), srt)] = true
				ok = true
			}
		case *ast.CallExpr:
			if id, isId := n.Fun.(*ast.Ident); isId {
				switch id.Name {
				case "elems":
					if t := typeOf(n.Args[0]); t != nil {
						if sl, isSl := t.Underlying().(*types.Slice); isSl {
							es := s.sortOf(sl.Elem())
							if s.sortOf(t) == sSl {
								keys[f.compKey("E:", sortTag(es), es)] = true
							}
							ok = true
						}
					}
				case "mapof":
					if t := typeOf(n.Args[0]); t != nil {
						if mt, isM := t.Underlying().(*types.Map); isM {
							hk, vk, _, _ := f.mapKeys(mt)
							keys[hk] = true
							keys[vk] = true
							ok = true
						}
					}
				case "comp":
					keys["*"] = true // resolved precisely only at the call
					ok = true
				}
			}
		}
		if !ok {
			keys["*"] = true
		}
	}
}

// loopModifies computes the set of components written inside a loop body.
func (f *Frame) loopModifies(l *Loop) map[string]bool {
	keys := map[string]bool{}
	seenFn := map[*ssa.Function]bool{}
	var scanCall func(c *ssa.CallCommon, depth int)
	var scanBlocks func(g *Frame, blocks []*ssa.BasicBlock, depth int)
	scanCall = func(c *ssa.CallCommon, depth int) {
		s := f.vc.sorts
		if b, ok := c.Value.(*ssa.Builtin); ok {
			switch b.Name() {
			case "append":
				if sl, ok := c.Args[0].Type().Underlying().(*types.Slice); ok && s.sortOf(c.Args[0].Type()) == sSl {
					es := s.sortOf(sl.Elem())
					keys[f.compKey("E:", sortTag(es), es)] = true
				}
			case "copy":
				if sl, ok := c.Args[0].Type().Underlying().(*types.Slice); ok {
					if s.sortOf(c.Args[0].Type()) == sSl {
						es := s.sortOf(sl.Elem())
						keys[f.compKey("E:", sortTag(es), es)] = true
					} else {
						keys[f.verKey(c.Args[0])] = true
					}
				}
			case "delete":
				if mt, ok := c.Args[0].Type().Underlying().(*types.Map); ok {
					hk, _, _, _ := f.mapKeys(mt)
					keys[hk] = true
				}
			case "clear", "close":
				keys["*"] = true
			}
			return
		}
		if c.IsInvoke() {
			name := "iface:" + typeKey(c.Value.Type()) + "." + c.Method.Name()
			if con := f.vc.w.contracts[name]; con != nil {
				f.modKeysStatic(con, nil, c.Signature(), keys)
			} else if !knownPureMethod(c.Method.Name(), c.Value.Type()) {
				keys["*"] = true
			}
			return
		}
		callee := c.StaticCallee()
		if callee == nil {
			if mc, ok := c.Value.(*ssa.MakeClosure); ok {
				callee = mc.Fn.(*ssa.Function)
			}
		}
		if callee == nil {
			if p, ok := c.Value.(*ssa.Parameter); ok && f.vc.con != nil && f.vc.con.Opts["param."+p.Name()] == "pure" {
				return
			}
			if p, ok := c.Value.(*ssa.FreeVar); ok && f.vc.con != nil && f.vc.con.Opts["param."+p.Name()] == "pure" {
				return
			}
			keys["*"] = true
			return
		}
		key := funcKey(callee)
		con := f.vc.w.contracts[key]
		if con == nil && callee.Origin() != nil {
			con = f.vc.w.contracts[funcKey(callee.Origin())]
		}
		if con != nil {
			f.modKeysStatic(con, callee, callee.Signature, keys)
			return
		}
		if callee.Blocks != nil && f.canInline(callee) && depth < maxInlineDepth && !seenFn[callee] {
			seenFn[callee] = true
			sub := &Frame{vc: f.vc, fn: callee}
			scanBlocks(sub, callee.Blocks, depth+1)
			// locals of the inlined callee do not matter; version keys neither
			return
		}
		if !f.vc.w.knownPure(key) {
			keys["*"] = true
		}
	}
	scanBlocks = func(g *Frame, blocks []*ssa.BasicBlock, depth int) {
		for _, b := range blocks {
			for _, ins := range b.Instrs {
				switch x := ins.(type) {
				case *ssa.Store:
					if g == f {
						f.addrKeys(x.Addr, keys)
					} else {
						tmp := map[string]bool{}
						g.bind = nil
						g.addrKeys(x.Addr, tmp)
						for k := range tmp {
							if !strings.HasPrefix(k, "L:") && !strings.HasPrefix(k, "V:") {
								keys[k] = true
							}
						}
					}
				case *ssa.MapUpdate:
					hk, vk, _, _ := f.mapKeys(x.Map.Type().Underlying().(*types.Map))
					keys[hk] = true
					keys[vk] = true
				case *ssa.Call:
					scanCall(&x.Call, depth)
				case *ssa.Defer:
					scanCall(&x.Call, depth)
				case *ssa.Next:
					if rng, ok := x.Iter.(*ssa.Range); ok && g == f {
						if mt, isMap := rng.X.Type().Underlying().(*types.Map); isMap {
							keys[f.rangeKey(rng, f.vc.sorts.sortOf(mt.Key()))] = true
						}
					}
				case *ssa.Go:
					keys["*"] = true
				case *ssa.Alloc:
					if x.Heap {
						// initialisation of a fresh object writes its field components
						elem := derefType(x.Type())
						if st, ok := elem.Underlying().(*types.Struct); ok {
							ss := f.vc.sorts.sortOf(elem)
							for i := 0; i < st.NumFields(); i++ {
								keys[f.compKey("F:", ss+"."+st.Field(i).Name(), f.vc.sorts.sortOf(st.Field(i).Type()))] = true
							}
						} else {
							srt := f.vc.sorts.sortOf(elem)
							keys[f.compKey("D:", sortTag(srt), srt)] = true
						}
					} else if g == f {
						keys[fmt.Sprintf("L:f%d:%s", f.fnum(), x.Name())] = true
					}
				case *ssa.MakeSlice:
					if f.vc.sorts.sortOf(x.Type()) == sSl {
						es := f.vc.sorts.sortOf(x.Type().Underlying().(*types.Slice).Elem())
						keys[f.compKey("E:", sortTag(es), es)] = true
					}
				case *ssa.MakeMap:
					hk, _, _, _ := f.mapKeys(x.Type().Underlying().(*types.Map))
					keys[hk] = true
				}
			}
		}
	}
	var blocks []*ssa.BasicBlock
	for _, b := range f.fn.Blocks {
		if l.Body[b] {
			blocks = append(blocks, b)
		}
	}
	scanBlocks(f, blocks, f.depth)
	return keys
}

// loopEnv builds the environment in which loop clauses are translated.
func (f *Frame) loopEnv(l *Loop, phiVals map[*ssa.Phi]Term, st *State) *Env {
	env := f.loopEnv0(l, phiVals, st)
	if l.pre != nil {
		// before(e): the heap as it was when the loop was entered, the loop's variables as they are now
		env.loopPre = f.loopEnv0(l, phiVals, l.pre)
	}
	return env
}

func (f *Frame) loopEnv0(l *Loop, phiVals map[*ssa.Phi]Term, st *State) *Env {
	var env *Env
	if f.top && f.vc.topEnv != nil {
		env = f.vc.topEnv.clone()
	} else {
		env = &Env{f: f, vars: map[string]EV{}}
		for i, p := range f.fn.Params {
			env.vars[p.Name()] = EV{f.args[i], p.Type()}
		}
		if f.fn.Pkg != nil {
			env.pkg = f.fn.Pkg.Pkg
		}
	}
	env.f = f
	env.st = st
	env.old = f.entry
	if f.top {
		env.oldEnv = f.vc.topEnv
	}
	for phi, t := range phiVals {
		if phi.Comment != "" {
			env.vars[phi.Comment] = EV{t, phi.Type()}
		}
		env.vars[phi.Name()] = EV{t, phi.Type()}
	}
	// the hidden index of an enclosing range loop n is written rangeindex<n>
	for _, outer := range f.loops {
		if outer == l || !outer.Body[l.Header] {
			continue
		}
		for _, phi := range f.headerPhis(outer.Header) {
			if phi.Comment == "rangeindex" {
				if _, ok := f.vals[phi]; ok {
					env.vars[fmt.Sprintf("rangeindex%d", outer.Ordinal)] = EV{f.value(phi, st), phi.Type()}
				}
			}
		}
	}
	env.lookup = f.localLookupAt(st, l.Header)
	env.curParams = true
	// a range over a map in this loop: visited(k) refers to its ghost set of visited keys
	for _, b := range f.fn.Blocks {
		if !l.Body[b] {
			continue
		}
		for _, ins := range b.Instrs {
			if nx, ok := ins.(*ssa.Next); ok {
				if rng, ok := nx.Iter.(*ssa.Range); ok {
					if mt, isMap := rng.X.Type().Underlying().(*types.Map); isMap {
						env.rangeKey = f.rangeKey(rng, f.vc.sorts.sortOf(mt.Key()))
					}
				}
			}
		}
	}
	return env
}

func (f *Frame) loopClauses(l *Loop) (invs []*Clause, dec *Clause) {
	if f.con == nil {
		return nil, nil
	}
	for _, c := range f.con.Invs {
		if c.Loop == l.Ordinal {
			invs = append(invs, c)
		}
	}
	for _, c := range f.con.Decs {
		if c.Loop == l.Ordinal {
			dec = c
		}
	}
	return
}

func (f *Frame) headerPhis(b *ssa.BasicBlock) []*ssa.Phi {
	var out []*ssa.Phi
	for _, ins := range b.Instrs {
		if phi, ok := ins.(*ssa.Phi); ok {
			out = append(out, phi)
		} else if _, isDbg := ins.(*ssa.DebugRef); !isDbg {
			break
		}
	}
	return out
}

// autoInv is an invariant the generator derives itself. Text is translated (it
// names SSA registers, which are unambiguous); Label names the obligation and is
// written with source-level names only, so that it does not depend on register
// numbering (an engine or code change that renumbers registers must not rename
// a registered obligation).
type autoInv struct{ Text, Label string }

// srcName renders a value with source-level names for obligation labels.
func srcName(v ssa.Value) string {
	s := shortVal(v)
	if s == "_" || s == "" {
		return "?"
	}
	return s
}

// autoInvariants returns invariants the generator derives itself for counting loops.
func (f *Frame) autoInvariants(l *Loop, phi *ssa.Phi, init ssa.Value) []autoInv {
	if !isWordType(phi.Type()) {
		return nil
	}
	c, ok := init.(*ssa.Const)
	if !ok || c.Value == nil {
		return nil
	}
	// all back-edge values must be phi + positive constant
	for i, p := range l.Header.Preds {
		if !isBackEdge(p, l.Header) {
			continue
		}
		bo, ok := phi.Edges[i].(*ssa.BinOp)
		if !ok || bo.Op.String() != "+" || bo.X != phi {
			return nil
		}
		k, ok := bo.Y.(*ssa.Const)
		if !ok || k.Value == nil || k.Int64() <= 0 {
			return nil
		}
	}
	name, lname := phi.Name(), srcName(phi)
	out := []autoInv{{fmt.Sprintf("%d <= %s", c.Int64(), name), fmt.Sprintf("%d<=%s", c.Int64(), lname)}}
	// upper bound from the loop condition in the header: phi < X or phi+1 < X with X loop-invariant
	if len(l.Header.Instrs) == 0 {
		return out
	}
	iff, ok := l.Header.Instrs[len(l.Header.Instrs)-1].(*ssa.If)
	if !ok {
		return out
	}
	cond, ok := iff.Cond.(*ssa.BinOp)
	if !ok || cond.Op.String() != "<" || !l.Body[l.Header.Succs[0]] {
		return out
	}
	outside := func(v ssa.Value) bool {
		switch x := v.(type) {
		case *ssa.Const, *ssa.Parameter, *ssa.FreeVar:
			return true
		case ssa.Instruction:
			return !l.Body[x.Block()]
		}
		return false
	}
	var bound, lbound string
	switch y := cond.Y.(type) {
	case *ssa.Const:
		if y.Value != nil {
			bound = fmt.Sprint(y.Int64())
			lbound = bound
		}
	case *ssa.Call:
		if b, isB := y.Call.Value.(*ssa.Builtin); isB && b.Name() == "len" && outside(y.Call.Args[0]) {
			if _, isMap := y.Call.Args[0].Type().Underlying().(*types.Map); !isMap {
				if _, isC := y.Call.Args[0].(*ssa.Const); !isC {
					bound = "len(" + y.Call.Args[0].Name() + ")"
					lbound = "len(" + srcName(y.Call.Args[0]) + ")"
				}
			}
		} else if outside(y) {
			bound = y.Name()
			lbound = srcName(y)
		}
	default:
		if outside(cond.Y) {
			bound = cond.Y.Name()
			lbound = srcName(cond.Y)
		}
	}
	if bound == "" {
		return out
	}
	if cond.X == phi {
		out = append(out, autoInv{fmt.Sprintf("%s <= %s || %s == %d", name, bound, name, c.Int64()),
			fmt.Sprintf("%s<=%s||%s==%d", lname, lbound, lname, c.Int64())})
	} else if bo, isBo := cond.X.(*ssa.BinOp); isBo && bo.X == phi && bo.Op.String() == "+" {
		if k, isK := bo.Y.(*ssa.Const); isK && k.Value != nil && k.Int64() == 1 {
			out = append(out, autoInv{fmt.Sprintf("%s < %s || %s == %d", name, bound, name, c.Int64()),
				fmt.Sprintf("%s<%s||%s==%d", lname, lbound, lname, c.Int64())})
		}
	}
	return out
}

func (f *Frame) enterLoop(l *Loop, b *ssa.BasicBlock, predBlocks []*ssa.BasicBlock, conds []Term, preds []*State, entry *State, reach Term) {
	vc := f.vc
	invs, dec := f.loopClauses(l)
	phis := f.headerPhis(b)
	// values of the phis on loop entry
	initVals := map[*ssa.Phi]Term{}
	var auto []autoInv
	for _, phi := range phis {
		v := f.mergePhi(phi, b, predBlocks, conds)
		initVals[phi] = v.(Term)
		if len(predBlocks) == 1 {
			auto = append(auto, f.autoInvariants(l, phi, f.phiOperand(phi, b, predBlocks[0]))...)
		}
	}
	seenLabel := map[string]int{}
	for _, a := range auto {
		label := "auto:" + strings.ReplaceAll(a.Label, " ", "")
		seenLabel[label]++
		if n := seenLabel[label]; n > 1 {
			label += fmt.Sprintf("~%d", n)
		}
		invs = append(invs, &Clause{Kind: "invariant", Text: a.Text, Loop: l.Ordinal, Label: label})
	}
	l.invs = invs
	l.pre, l.preVals = entry, initVals
	// inv-init
	ienv := f.loopEnv(l, initVals, entry)
	for i, c := range invs {
		t, err := ienv.trBool(c.Text)
		if err != nil {
			vc.failed = fmt.Errorf("%s: loop %d invariant %q: %v", c.Line, l.Ordinal, c.Text, err)
			return
		}
		vc.oblige("inv-init", fmt.Sprintf("inv-init#%s%d/%s", f.prefix, l.Ordinal, clauseName(c, i)), mergeTags(c.Tags, f.tags), reach, t, f.pos(b.Instrs[0].Pos())).Desc = c.Text
	}
	// havoc
	keys := f.loopModifies(l)
	all := keys["*"]
	hst := entry.havocKeys(keys, false)
	if all {
		hst = entry.havocKeys(keys, false) // keys contains "*": the whole heap plus the listed non-heap keys
	}
	hst.loopFrame = vc.con != nil && vc.con.ModSet && vc.con.Opts["loopframe"] == "on"
	l.hstate = hst
	l.phiNew = map[*ssa.Phi]Term{}
	for _, phi := range phis {
		name := phi.Comment
		if name == "" {
			name = phi.Name()
		}
		v := f.havocValue(phi.Type(), name).(Term)
		f.readFacts(v, phi.Type(), hst)
		l.phiNew[phi] = v
		f.vals[phi] = v
	}
	henv := f.loopEnv(l, l.phiNew, hst)
	for _, c := range invs {
		t, err := henv.trBool(c.Text)
		if err != nil {
			vc.failed = fmt.Errorf("%s: loop %d invariant %q: %v", c.Line, l.Ordinal, c.Text, err)
			return
		}
		vc.assume(tImp(reach, t))
	}
	if dec != nil {
		t, err := henv.tr(dec.Text, vc.sorts.wordSort())
		if err != nil {
			vc.failed = fmt.Errorf("%s: loop %d decreases %q: %v", dec.Line, l.Ordinal, dec.Text, err)
			return
		}
		l.varOld = vc.define("variant", t)
		l.hasVar = true
		l.dec = dec
	}
}

func (f *Frame) backEdge(l *Loop, from *ssa.BasicBlock, cond Term, st *State) {
	vc := f.vc
	if l == nil || l.hstate == nil {
		return
	}
	vals := map[*ssa.Phi]Term{}
	for _, phi := range f.headerPhis(l.Header) {
		vals[phi] = f.term(f.phiOperand(phi, l.Header, from), st)
	}
	env := f.loopEnv(l, vals, st)
	for i, c := range l.invs {
		t, err := env.trBool(c.Text)
		if err != nil {
			vc.failed = fmt.Errorf("%s: loop %d invariant %q: %v", c.Line, l.Ordinal, c.Text, err)
			return
		}
		vc.oblige("inv-pres", fmt.Sprintf("inv-pres#%s%d/%s@b%d", f.prefix, l.Ordinal, clauseName(c, i), from.Index), mergeTags(c.Tags, f.tags), cond, t, f.pos(l.Header.Instrs[0].Pos())).Desc = c.Text
	}
	if l.hasVar {
		t, err := env.tr(l.dec.Text, vc.sorts.wordSort())
		if err != nil {
			vc.failed = fmt.Errorf("%s: loop %d decreases: %v", l.dec.Line, l.Ordinal, err)
			return
		}
		goal := tAnd(f.wLe(f.wordLit(0), l.varOld), f.wLt(t, l.varOld))
		vc.oblige("variant", fmt.Sprintf("variant#%s%d@b%d", f.prefix, l.Ordinal, from.Index), mergeTags(l.dec.Tags, f.tags), cond, goal, f.pos(l.Header.Instrs[0].Pos())).Desc = l.dec.Text
	}
}
