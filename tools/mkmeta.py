#!/usr/bin/env python3
"""Writes /verif/seeded/<id>/meta.json from the change's description.md and seeded/detection.json
(kept by hand: which check caught the change when it was last tried, and with which obligations)."""
import json, os, re
here = os.path.dirname(os.path.abspath(__file__))
root = os.path.join(os.path.dirname(here), "seeded")
det = json.load(open(os.path.join(root, "detection.json")))
for d in sorted(os.listdir(root)):
    p = os.path.join(root, d)
    if not os.path.isdir(p):
        continue
    desc = open(os.path.join(p, "description.md")).read()
    title = desc.splitlines()[0].lstrip("# ").strip()
    paras = re.split(r"\n\s*\n", desc)
    needs = [x for x in paras if x.lower().startswith("needs to manifest")]
    what = [x for x in paras if x.lower().startswith("what")]
    why = [x for x in paras if x.lower().startswith("why")]
    flat = lambda l: re.sub(r"\s+", " ", l[0]).strip() if l else ""
    meta = {
        "id": d,
        "property": d.split("-")[0],
        "title": title,
        "what": flat(what),
        "why_it_breaks_the_property": flat(why),
        "needs_to_manifest": flat(needs),
        "origin": "written by a sub-agent that saw only the property text and a scratch worktree of /repo; nothing from /verif",
        "confirmed_by": "tools/validate_seed.sh %s: fresh worktree of the pinned commit, git apply, go build ./... and go vet-free compile, the pinned baseline (66 tests, bsonkit + dbkit) passes with the change, demo/main.go prints PASS on the original tree and FAIL with the change (demo_output_with_change.txt)" % d,
        "files": {"patch": "patch.diff", "demo": "demo/main.go", "demo_output": "demo_output_with_change.txt", "description": "description.md"},
        "detection": det.get(d, {"caught": False, "by": None, "note": "not tried yet"}),
    }
    json.dump(meta, open(os.path.join(p, "meta.json"), "w"), indent=1)
    print(d, meta["detection"].get("caught"))
