;; needs: base
; ---------------------------------------------------------------------------
; The BSON order as a total preorder: ASSUMED. These are the statements of the
; total-order lemmas of property C12 (range, reflexivity, antisymmetry,
; transitivity in its mixed forms). C12 proves that the code computes the
; specified function cmp; that cmp, as specified in specs/cmp.smt2, is a total
; preorder would need an induction on the size of the values over the
; first-difference definition of the array / document order, which has not been
; carried out (no lemma file exists for it). Every evidence file of a check that
; uses this module lists it as an assumption. The functions that build on
; Compare (sort keys, distinct, $min/$max, match operators, index order) use the
; lemmas in this form.
(assert (forall ((a Val) (b Val)) (! (and (<= (- 1) (cmp a b)) (<= (cmp a b) 1)) :pattern ((cmp a b)))))
(assert (forall ((a Val)) (! (= (cmp a a) 0) :pattern ((cmp a a)))))
(assert (forall ((a Val) (b Val)) (! (= (cmp b a) (- (cmp a b))) :pattern ((cmp a b)))))
(assert (forall ((a Val) (b Val) (c Val)) (! (=> (and (<= (cmp a b) 0) (<= (cmp b c) 0)) (<= (cmp a c) 0))
   :pattern ((cmp a b) (cmp b c)))))
(assert (forall ((a Val) (b Val) (c Val)) (! (=> (and (<= (cmp a b) 0) (< (cmp b c) 0)) (< (cmp a c) 0))
   :pattern ((cmp a b) (cmp b c)))))
(assert (forall ((a Val) (b Val) (c Val)) (! (=> (and (< (cmp a b) 0) (<= (cmp b c) 0)) (< (cmp a c) 0))
   :pattern ((cmp a b) (cmp b c)))))
; both compared against a common third value (consequences of the above, stated so
; that no flipped comparison has to be derived first)
(assert (forall ((a Val) (b Val) (c Val)) (! (=> (and (>= (cmp a b) 0) (< (cmp c b) 0)) (> (cmp a c) 0))
   :pattern ((cmp a b) (cmp c b)))))
(assert (forall ((a Val) (b Val) (c Val)) (! (=> (and (<= (cmp a b) 0) (> (cmp c b) 0)) (< (cmp a c) 0))
   :pattern ((cmp a b) (cmp c b)))))
(assert (forall ((a Val) (b Val) (c Val)) (! (=> (and (>= (cmp a b) 0) (<= (cmp c b) 0)) (>= (cmp a c) 0))
   :pattern ((cmp a b) (cmp c b)))))
(assert (forall ((a Val) (b Val) (c Val)) (! (=> (and (<= (cmp a b) 0) (>= (cmp c b) 0)) (<= (cmp a c) 0))
   :pattern ((cmp a b) (cmp c b)))))
; the same three, read from the greater side
(assert (forall ((a Val) (b Val) (c Val)) (! (=> (and (>= (cmp a b) 0) (>= (cmp b c) 0)) (>= (cmp a c) 0))
   :pattern ((cmp a b) (cmp b c)))))
(assert (forall ((a Val) (b Val) (c Val)) (! (=> (and (>= (cmp a b) 0) (> (cmp b c) 0)) (> (cmp a c) 0))
   :pattern ((cmp a b) (cmp b c)))))
(assert (forall ((a Val) (b Val) (c Val)) (! (=> (and (> (cmp a b) 0) (>= (cmp b c) 0)) (> (cmp a c) 0))
   :pattern ((cmp a b) (cmp b c)))))
