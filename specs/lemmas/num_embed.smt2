;; props: C12
; lemma/num-embed: the light same-representation orders used in cmpNum agree with
; the order of the exact binary128 embeddings (so cmpNum is "exact value, NaN lowest").
; goals are checked one by one with push/pop by the lemma runner: each (goal ...) must be valid.
;; modules: num cmp
(declare-const a64 (_ BitVec 64)) (declare-const b64 (_ BitVec 64))
(declare-const a32 (_ BitVec 32)) (declare-const b32 (_ BitVec 32))
(declare-const af F64) (declare-const bf F64)
;; goal i64-i64
(= (cmpI64 a64 b64) (cmpQ (q_ofI64 a64) (q_ofI64 b64)))
;; goal i32-i32
(= (cmpI32 a32 b32) (cmpQ (q_ofI32 a32) (q_ofI32 b32)))
;; goal i32-i64
(= (cmpI64 (i32to64 a32) b64) (cmpQ (q_ofI32 a32) (q_ofI64 b64)))
;; goal f64-f64
(= (cmpF64 af bf) (cmpQ (q_ofF64 af) (q_ofF64 bf)))
;; goal i32-f64
(= (cmpF64 (i32toF a32) bf) (cmpQ (q_ofI32 a32) (q_ofF64 bf)))
;; goal i32-exact-in-f64
(= (q_ofF64 (i32toF a32)) (q_ofI32 a32))
;; goal cmpQ-antisym
(= (cmpQ (q_ofI64 a64) (q_ofF64 bf)) (- (cmpQ (q_ofF64 bf) (q_ofI64 a64))))
