; ---------------------------------------------------------------------------
; Abstract view of mongokit.Project (property C14): the projected document as a
; function of the content of the stored document and of the projection, and
; whether the projection is accepted. Uninterpreted: what the projection of a
; document is, is the business of Project's own body (only its $slice operator
; is under contract); here it only lets ProjectList say "element i is the
; projection of document i, computed from that document alone".
(declare-fun projected (Seq_S_primitive_E Seq_S_primitive_E) Seq_S_primitive_E)
(declare-fun projectOK (Seq_S_primitive_E Seq_S_primitive_E) Bool)
