;; needs: base wf
; ---------------------------------------------------------------------------
; Abstract view of the path-access functions of bsonkit/access.go
; (Get / Put / Unset): the value found at a dotted path and the document that
; results from writing one. These are uninterpreted; the contracts of Get, Put
; and Unset (trusted, see DESIGN.md "bounded stand-in") tie the real functions
; to them, and the operator contracts of mongokit are stated over them.
(declare-fun getPath (Seq_S_primitive_E Str) Val)
(declare-fun putPath (Seq_S_primitive_E Str Val Bool) Seq_S_primitive_E)
(declare-fun putOK (Seq_S_primitive_E Str Val Bool) Bool)
(declare-fun unsetPath (Seq_S_primitive_E Str) Seq_S_primitive_E)
; bsonkit.All: the value(s) found at a path with array fan-out, and whether the path fanned out
(declare-fun allValue (Seq_S_primitive_E Str Bool Bool) Val)
(declare-fun allMulti (Seq_S_primitive_E Str Bool Bool) Bool)
(assert (forall ((d Seq_S_primitive_E) (p Str) (c Bool) (m Bool)) (! (=> (wfVal (VDoc d)) (wfVal (allValue d p c m)))
   :pattern ((allValue d p c m)))))
; what is found at a path of a well-formed document is well-formed
(assert (forall ((d Seq_S_primitive_E) (p Str)) (! (=> (wfVal (VDoc d)) (wfVal (getPath d p)))
   :pattern ((getPath d p)))))
; access algebra used by the idempotence lemmas (assumed; checked exhaustively on small documents)
(assert (forall ((d Seq_S_primitive_E) (p Str) (v Val) (pre Bool)) (! (=> (putOK d p v pre) (= (getPath (putPath d p v pre) p) v))
   :pattern ((putPath d p v pre)))))
