; exact numeric values: int32, int64 and float64 embed exactly into binary128
(define-sort F128 () (_ FloatingPoint 15 113))
(define-fun q_ofI64 ((x (_ BitVec 64))) F128 ((_ to_fp 15 113) RNE x))
(define-fun q_ofI32 ((x (_ BitVec 32))) F128 ((_ to_fp 15 113) RNE x))
(define-fun q_ofF64 ((x (_ FloatingPoint 11 53))) F128 ((_ to_fp 15 113) RNE x))
; the property's order on numbers: exact value, NaN lowest (and equal to itself)
(define-fun cmpQ ((a F128) (b F128)) Int
  (ite (fp.isNaN a) (ite (fp.isNaN b) 0 (- 1))
  (ite (fp.isNaN b) 1
  (ite (fp.eq a b) 0 (ite (fp.gt a b) 1 (- 1))))))
(define-fun cmpBool ((a Bool) (b Bool)) Int (ite (= a b) 0 (ite a 1 (- 1))))
(define-fun fp_isNaN ((x (_ FloatingPoint 11 53))) Bool (fp.isNaN x))
(define-fun fp_isInf ((x (_ FloatingPoint 11 53))) Bool (fp.isInfinite x))
