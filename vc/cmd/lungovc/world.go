package main

import (
	"fmt"
	"go/types"
	"os"
	"path/filepath"
	"sort"
	"strings"

	"golang.org/x/tools/go/packages"
	"golang.org/x/tools/go/ssa"
	"golang.org/x/tools/go/ssa/ssautil"
)

const repoModule = "github.com/256dpi/lungo"

// SpecModule is one file of /verif/specs.
type SpecModule struct {
	Name  string
	Forms []*SpecForm
	Needs []string // other modules (";; needs: a b")
}

type SpecForm struct {
	Text     string
	Defines  string // symbol defined/declared ("" for assert)
	Syms     map[string]bool
	Axiom    bool
	Ret      string   // return sort for functions
	Args     []string // argument sorts
	Uninterp bool     // declare-fun / declare-const
}

type World struct {
	repo      string
	prog      *ssa.Program
	pkgs      map[string]*ssa.Package // by import path
	short     map[string]*ssa.Package // by package name
	contracts map[string]*Contract    // key: full function name (fn.String() style)
	conList   []*Contract
	specs     map[string]*SpecModule
	specFn    map[string]*SpecForm // symbol -> defining form
	specMod   map[string]string    // symbol -> module
	fnIndex   map[string]*ssa.Function
	verifDir  string
}

func shortPkg(path string) string {
	if path == repoModule {
		return "lungo"
	}
	if strings.HasPrefix(path, repoModule+"/") {
		return strings.TrimPrefix(path, repoModule+"/")
	}
	// external packages: last path element (decimal, primitive, strings, ...)
	if i := strings.LastIndex(path, "/"); i >= 0 {
		return path[i+1:]
	}
	return path
}

// funcKey is the name under which contracts are looked up and obligations are
// named: pkg.Func, pkg.(*T).M, pkg.F$1.
func funcKey(fn *ssa.Function) string {
	if fn == nil {
		return "<nil>"
	}
	name := fn.Name()
	if fn.Parent() != nil {
		// closure: Parent$N
		return funcKey(fn.Parent()) + strings.TrimPrefix(fn.Name(), fn.Parent().Name())
	}
	pk := ""
	if fn.Pkg != nil {
		pk = fn.Pkg.Pkg.Path()
	} else if fn.Object() != nil && fn.Object().Pkg() != nil {
		pk = fn.Object().Pkg().Path()
	}
	pk = shortPkg(pk)
	if recv := fn.Signature.Recv(); recv != nil {
		rt := recv.Type()
		star := ""
		if p, ok := rt.(*types.Pointer); ok {
			rt = p.Elem()
			star = "*"
		}
		tn := typeKey(rt)
		// drop type arguments (they contain dots of their own)
		if i := strings.Index(tn, "["); i >= 0 {
			tn = tn[:i]
		}
		if i := strings.LastIndex(tn, "."); i >= 0 {
			tn = tn[i+1:]
		}
		return fmt.Sprintf("%s.(%s%s).%s", pk, star, tn, name)
	}
	return pk + "." + name
}

func loadWorld(repo, verifDir string) (*World, error) {
	os.Setenv("PATH", "/opt/veriftools/go1.26.8/bin:"+os.Getenv("PATH"))
	os.Setenv("GOFLAGS", "-mod=mod")
	os.Setenv("GOPROXY", "off")
	os.Setenv("GOSUMDB", "off")
	os.Setenv("GOTOOLCHAIN", "local")
	cfg := &packages.Config{Mode: packages.LoadAllSyntax, Dir: repo, BuildFlags: []string{"-tags=verif"}}
	pkgs, err := packages.Load(cfg, "./...")
	if err != nil {
		return nil, err
	}
	nerr := 0
	packages.Visit(pkgs, nil, func(p *packages.Package) {
		for _, e := range p.Errors {
			fmt.Fprintln(os.Stderr, "load error:", e)
			nerr++
		}
	})
	if nerr > 0 {
		return nil, fmt.Errorf("%d load errors (the tree does not compile)", nerr)
	}
	prog, spkgs := ssautil.AllPackages(pkgs, ssa.InstantiateGenerics|ssa.GlobalDebug)
	prog.Build()
	w := &World{repo: repo, prog: prog, pkgs: map[string]*ssa.Package{}, short: map[string]*ssa.Package{},
		contracts: map[string]*Contract{}, specs: map[string]*SpecModule{}, specFn: map[string]*SpecForm{},
		specMod: map[string]string{}, fnIndex: map[string]*ssa.Function{}, verifDir: verifDir}
	for _, p := range spkgs {
		if p == nil {
			continue
		}
		w.pkgs[p.Pkg.Path()] = p
	}
	for _, p := range prog.AllPackages() {
		w.pkgs[p.Pkg.Path()] = p
	}
	// index functions of the repo packages (including methods and closures)
	for fn := range ssautil.AllFunctions(prog) {
		if fn == nil {
			continue
		}
		w.fnIndex[funcKey(fn)] = fn
	}
	// contracts: in-repo files and the externals file
	for path, p := range w.pkgs {
		if !strings.HasPrefix(path, repoModule) {
			continue
		}
		dir := filepath.Join(repo, strings.TrimPrefix(strings.TrimPrefix(path, repoModule), "/"))
		f := filepath.Join(dir, "zz_contracts_verif.go")
		if _, err := os.Stat(f); err != nil {
			continue
		}
		cs, err := parseContractFile(f, shortPkg(p.Pkg.Path()))
		if err != nil {
			return nil, err
		}
		for _, c := range cs {
			w.addContract(c)
		}
	}
	ext, _ := filepath.Glob(filepath.Join(verifDir, "specs", "*.contracts"))
	sort.Strings(ext)
	for _, f := range ext {
		cs, err := parseContractFile(f, "")
		if err != nil {
			return nil, err
		}
		for _, c := range cs {
			w.addContract(c)
		}
	}
	if err := w.loadSpecs(filepath.Join(verifDir, "specs")); err != nil {
		return nil, err
	}
	return w, nil
}

func (w *World) addContract(c *Contract) {
	key := c.Func
	if !c.Extern {
		key = c.Pkg + "." + c.Func
	}
	if old, ok := w.contracts[key]; ok {
		fmt.Fprintf(os.Stderr, "warning: duplicate contract for %s (%s, %s)\n", key, old.File, c.File)
	}
	w.contracts[key] = c
	w.conList = append(w.conList, c)
}

func (w *World) contractOf(fn *ssa.Function) *Contract {
	if fn == nil {
		return nil
	}
	return w.contracts[funcKey(fn)]
}

// ---------------------------------------------------------------------------
// spec modules

var smtBuiltins = map[string]bool{}

func (w *World) loadSpecs(dir string) error {
	files, _ := filepath.Glob(filepath.Join(dir, "*.smt2"))
	sort.Strings(files)
	for _, f := range files {
		data, err := os.ReadFile(f)
		if err != nil {
			return err
		}
		name := strings.TrimSuffix(filepath.Base(f), ".smt2")
		if strings.HasPrefix(name, "lemma_") {
			continue // lemma files are complete queries, not modules
		}
		mod := &SpecModule{Name: name}
		for _, line := range strings.Split(string(data), "\n") {
			if strings.HasPrefix(line, ";; needs:") {
				mod.Needs = append(mod.Needs, strings.Fields(strings.TrimPrefix(line, ";; needs:"))...)
			}
		}
		forms, err := parseSexps(string(data))
		if err != nil {
			return fmt.Errorf("%s: %v", f, err)
		}
		for _, fm := range forms {
			sf := &SpecForm{Text: fm.String(), Syms: map[string]bool{}}
			symbolsIn(sf.Text, sf.Syms)
			if fm.IsL && len(fm.List) > 0 {
				switch fm.List[0].Atom {
				case "declare-fun":
					sf.Uninterp = true
					sf.Defines = fm.List[1].Atom
					for _, a := range fm.List[2].List {
						sf.Args = append(sf.Args, a.String())
					}
					sf.Ret = fm.List[3].String()
				case "declare-const":
					sf.Uninterp = true
					sf.Defines = fm.List[1].Atom
					sf.Ret = fm.List[2].String()
				case "define-fun", "define-fun-rec":
					sf.Defines = fm.List[1].Atom
					for _, a := range fm.List[2].List {
						sf.Args = append(sf.Args, a.List[1].String())
					}
					sf.Ret = fm.List[3].String()
				case "declare-sort", "define-sort":
					sf.Defines = fm.List[1].Atom
				case "declare-datatypes":
					sf.Defines = fm.List[1].List[0].List[0].Atom
				case "assert":
					sf.Axiom = true
				}
			}
			if sf.Defines != "" {
				w.specFn[sf.Defines] = sf
				w.specMod[sf.Defines] = name
			}
			mod.Forms = append(mod.Forms, sf)
		}
		w.specs[name] = mod
	}
	return nil
}

// specText returns the text of the given modules (with their needs), in a
// deterministic order: module file order, dependencies first.
//
// Axioms (asserts) are sliced by relevance: an axiom is included only if one of
// the spec-declared symbols it talks about is reachable from the query text
// (through included definitions and already included axioms). Dropping an
// axiom only removes an assumption, so this is sound for validity queries.
func (w *World) specText(mods map[string]bool, axioms bool, query string) string {
	done := map[string]bool{}
	var order []*SpecModule
	var visit func(name string)
	visit = func(name string) {
		if done[name] {
			return
		}
		done[name] = true
		m := w.specs[name]
		if m == nil {
			return
		}
		for _, n := range m.Needs {
			visit(n)
		}
		order = append(order, m)
	}
	for _, name := range sortedKeys(mods) {
		visit(name)
	}
	rel := map[string]bool{}
	symbolsIn(query, rel)
	include := map[*SpecForm]bool{}
	if axioms {
		for changed := true; changed; {
			changed = false
			for _, m := range order {
				for _, f := range m.Forms {
					if include[f] {
						continue
					}
					hit := false
					if f.Axiom {
						for s := range f.Syms {
							if rel[s] && w.specFn[s] != nil && w.specFn[s].Uninterp {
								hit = true
								break
							}
						}
					} else if f.Defines != "" && rel[f.Defines] {
						hit = true
					}
					if hit {
						include[f] = true
						for s := range f.Syms {
							if !rel[s] {
								rel[s] = true
							}
						}
						changed = true
					}
				}
			}
		}
	}
	var b strings.Builder
	for _, m := range order {
		fmt.Fprintf(&b, "; --- spec module %s\n", m.Name)
		for _, f := range m.Forms {
			if f.Axiom && !include[f] {
				continue
			}
			b.WriteString(f.Text)
			b.WriteString("\n")
		}
	}
	return b.String()
}
