; ---------------------------------------------------------------------------
; Windows of arrays and lists (properties C14, C13, C11): MongoDB's definition of
; $slice, of the [skip, limit] projection form, and of cursor skip / limit.
; The reference definitions (suffix W) are computed in 128-bit arithmetic, so
; that no 64-bit argument can overflow the definition itself. The contracts use
; the 64-bit formulations below; specs/lemmas/window.smt2 proves that the two
; agree for every array length 0 <= n <= 2^48 and every 64-bit argument.
; Written from the MongoDB manual; nothing here is derived from the code.
(define-fun w128 ((x (_ BitVec 64))) (_ BitVec 128) ((_ sign_extend 64) x))
(define-fun min128 ((a (_ BitVec 128)) (b (_ BitVec 128))) (_ BitVec 128) (ite (bvslt a b) a b))
(define-fun max128 ((a (_ BitVec 128)) (b (_ BitVec 128))) (_ BitVec 128) (ite (bvslt a b) b a))
(define-fun lo64 ((x (_ BitVec 128))) (_ BitVec 64) ((_ extract 63 0) x))
(define-fun zero128 () (_ BitVec 128) (_ bv0 128))

; $slice: [skip, limit] over an array of n elements
;   skip >= 0: start = min(skip, n); skip < 0: start = max(0, n + skip);  end = min(start + limit, n)
(define-fun pairStartW ((n (_ BitVec 64)) (skip (_ BitVec 64))) (_ BitVec 64)
  (lo64 (ite (bvslt skip (_ bv0 64)) (max128 zero128 (bvadd (w128 n) (w128 skip))) (min128 (w128 skip) (w128 n)))))
(define-fun pairEndW ((n (_ BitVec 64)) (skip (_ BitVec 64)) (limit (_ BitVec 64))) (_ BitVec 64)
  (lo64 (min128 (bvadd (w128 (pairStartW n skip)) (w128 limit)) (w128 n))))
; $slice: count over an array of n elements: the first count (count > 0), the
; last |count| (count < 0), nothing (count = 0)
(define-fun countStartW ((n (_ BitVec 64)) (count (_ BitVec 64))) (_ BitVec 64)
  (ite (bvslt count (_ bv0 64)) (lo64 (max128 zero128 (bvadd (w128 n) (w128 count)))) (_ bv0 64)))
(define-fun countEndW ((n (_ BitVec 64)) (count (_ BitVec 64))) (_ BitVec 64)
  (ite (bvslt count (_ bv0 64)) n (lo64 (min128 (w128 count) (w128 n)))))

; the same four functions without wide arithmetic (no intermediate result can
; leave the 64-bit range when 0 <= n <= 2^48; limit >= 0 for pairEnd)
(define-fun pairStart ((n (_ BitVec 64)) (skip (_ BitVec 64))) (_ BitVec 64)
  (ite (bvslt skip (_ bv0 64))
       (ite (bvslt skip (bvneg n)) (_ bv0 64) (bvadd n skip))
       (ite (bvsgt skip n) n skip)))
(define-fun pairEnd ((n (_ BitVec 64)) (skip (_ BitVec 64)) (limit (_ BitVec 64))) (_ BitVec 64)
  (ite (bvsgt limit (bvsub n (pairStart n skip))) n (bvadd (pairStart n skip) limit)))
(define-fun countStart ((n (_ BitVec 64)) (count (_ BitVec 64))) (_ BitVec 64)
  (ite (bvslt count (_ bv0 64)) (ite (bvslt count (bvneg n)) (_ bv0 64) (bvadd n count)) (_ bv0 64)))
(define-fun countEnd ((n (_ BitVec 64)) (count (_ BitVec 64))) (_ BitVec 64)
  (ite (bvslt count (_ bv0 64)) n (ite (bvsgt count n) n count)))

; a numeric $slice argument as an integer: int32 / int64 exactly, a double
; truncated toward zero when it lies inside the int64 range
(define-fun sliceNumOK ((v Val)) Bool
  (or ((_ is VI32) v) ((_ is VI64) v)
      (and ((_ is VF64) v) (fp.geq (f64 v) ((_ to_fp 11 53) RNE (- 9223372036854775808.0))) (fp.lt (f64 v) ((_ to_fp 11 53) RNE 9223372036854775808.0)))))
(define-fun sliceNum ((v Val)) (_ BitVec 64)
  (ite ((_ is VI32) v) ((_ sign_extend 32) (i32 v)) (ite ((_ is VI64) v) (i64 v) ((_ fp.to_sbv 64) RTZ (f64 v)))))
(define-fun isNumArg ((v Val)) Bool (or ((_ is VI32) v) ((_ is VI64) v) ((_ is VF64) v)))

; r is the window [start, end) of a
; (a predicate with a defining axiom rather than a macro, so that two windows with
; equal arguments are recognised by congruence)
(declare-fun isWindow (Seq_Val Seq_Val (_ BitVec 64) (_ BitVec 64)) Bool)
(assert (forall ((r Seq_Val) (a Seq_Val) (start (_ BitVec 64)) (end (_ BitVec 64))) (! (= (isWindow r a start end)
  (and (= (lenbv.Seq_Val r) (bvsub end start))
       (forall ((k (_ BitVec 64))) (! (=> (and (bvsle (_ bv0 64) k) (bvslt k (bvsub end start)))
          (= (atbv.Seq_Val r k) (atbv.Seq_Val a (bvadd start k)))) :pattern ((atbv.Seq_Val r k))))))
  :pattern ((isWindow r a start end)))))
