; ---------------------------------------------------------------------------
; Abstract view of the list operations of mongokit used by the window
; contracts (property C13, C01): the documents of a list that match a query, in
; list order, and the list sorted by a sort document. Both are uninterpreted:
; what "matches" and "sorted" mean is the business of C10 and of bsonkit.Sort /
; Order; here they only name the sequence the skip / limit window is cut from.
(declare-fun filtered (Seq_Ref Seq_S_primitive_E (Array Int Seq_S_primitive_E)) Seq_Ref)
(declare-fun sortedBy (Seq_Ref Seq_S_primitive_E (Array Int Seq_S_primitive_E)) Seq_Ref)
(assert (forall ((l Seq_Ref) (q Seq_S_primitive_E) (d (Array Int Seq_S_primitive_E))) (! (and (<= 0 (len.Seq_Ref (filtered l q d))) (<= (len.Seq_Ref (filtered l q d)) (len.Seq_Ref l)))
   :pattern ((filtered l q d)))))
(assert (forall ((l Seq_Ref) (q Seq_S_primitive_E) (d (Array Int Seq_S_primitive_E))) (! (= (len.Seq_Ref (sortedBy l q d)) (len.Seq_Ref l))
   :pattern ((sortedBy l q d)))))
; Every element of the filtered list is an element of the list it was filtered
; from (filteredSrc: its position there, increasing - a sub-sequence), and
; sorting only rearranges (sortedSrc: the position each element came from).
(declare-fun filteredSrc (Seq_Ref Seq_S_primitive_E (Array Int Seq_S_primitive_E) Int) Int)
(assert (forall ((l Seq_Ref) (q Seq_S_primitive_E) (d (Array Int Seq_S_primitive_E)) (i Int))
  (! (=> (and (<= 0 i) (< i (len.Seq_Ref (filtered l q d))))
         (and (<= 0 (filteredSrc l q d i)) (< (filteredSrc l q d i) (len.Seq_Ref l))
              (= (at.Seq_Ref (filtered l q d) i) (at.Seq_Ref l (filteredSrc l q d i)))))
   :pattern ((at.Seq_Ref (filtered l q d) i)))))
(assert (forall ((l Seq_Ref) (q Seq_S_primitive_E) (d (Array Int Seq_S_primitive_E)) (i Int) (j Int))
  (! (=> (and (<= 0 i) (< i j) (< j (len.Seq_Ref (filtered l q d)))) (< (filteredSrc l q d i) (filteredSrc l q d j)))
   :pattern ((filteredSrc l q d i) (filteredSrc l q d j)))))
(declare-fun sortedSrc (Seq_Ref Seq_S_primitive_E (Array Int Seq_S_primitive_E) Int) Int)
(assert (forall ((l Seq_Ref) (q Seq_S_primitive_E) (d (Array Int Seq_S_primitive_E)) (i Int))
  (! (=> (and (<= 0 i) (< i (len.Seq_Ref l)))
         (and (<= 0 (sortedSrc l q d i)) (< (sortedSrc l q d i) (len.Seq_Ref l))
              (= (at.Seq_Ref (sortedBy l q d) i) (at.Seq_Ref l (sortedSrc l q d i)))))
   :pattern ((at.Seq_Ref (sortedBy l q d) i)))))
(assert (forall ((l Seq_Ref) (q Seq_S_primitive_E) (d (Array Int Seq_S_primitive_E)) (i Int) (j Int))
  (! (=> (and (<= 0 i) (< i j) (< j (len.Seq_Ref l))) (not (= (sortedSrc l q d i) (sortedSrc l q d j))))
   :pattern ((sortedSrc l q d i) (sortedSrc l q d j)))))
; seqId: the identity on sequences (lets a contract name "the elements of this heap
; slice as a sequence" where no other specification function is applied to it)
(define-fun seqId ((s Seq_Ref)) Seq_Ref s)
