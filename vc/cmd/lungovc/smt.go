package main

import (
	"fmt"
	"sort"
	"strings"
)

// Term is an SMT-LIB term together with its sort (both as text).
type Term struct {
	S    string
	Sort string
}

const (
	sBool = "Bool"
	sInt  = "Int"
	sRef  = "Ref"
	sVal  = "Val"
	sStr  = "Str"
	sErr  = "Err"
	sF64  = "F64"
	sF32  = "F32"
	sFn   = "Fn"
	sIfc  = "Ifc"
	sSl   = "Sl"
	sElem = "Elem"
)

func bvSort(n int) string { return fmt.Sprintf("(_ BitVec %d)", n) }

func isBV(s string) (int, bool) {
	var n int
	if _, err := fmt.Sscanf(s, "(_ BitVec %d)", &n); err == nil {
		return n, true
	}
	return 0, false
}

func T(sort, format string, args ...interface{}) Term {
	return Term{S: fmt.Sprintf(format, args...), Sort: sort}
}

func tTrue() Term  { return Term{"true", sBool} }
func tFalse() Term { return Term{"false", sBool} }

func tAnd(ts ...Term) Term {
	var parts []string
	for _, t := range ts {
		if t.S == "true" {
			continue
		}
		if t.S == "false" {
			return tFalse()
		}
		parts = append(parts, t.S)
	}
	if len(parts) == 0 {
		return tTrue()
	}
	if len(parts) == 1 {
		return Term{parts[0], sBool}
	}
	return Term{"(and " + strings.Join(parts, " ") + ")", sBool}
}

func tOr(ts ...Term) Term {
	var parts []string
	for _, t := range ts {
		if t.S == "false" {
			continue
		}
		if t.S == "true" {
			return tTrue()
		}
		parts = append(parts, t.S)
	}
	if len(parts) == 0 {
		return tFalse()
	}
	if len(parts) == 1 {
		return Term{parts[0], sBool}
	}
	return Term{"(or " + strings.Join(parts, " ") + ")", sBool}
}

func tNot(t Term) Term {
	if t.S == "true" {
		return tFalse()
	}
	if t.S == "false" {
		return tTrue()
	}
	return Term{"(not " + t.S + ")", sBool}
}

func tImp(a, b Term) Term {
	if a.S == "true" {
		return b
	}
	if a.S == "false" || b.S == "true" {
		return tTrue()
	}
	return Term{"(=> " + a.S + " " + b.S + ")", sBool}
}

func tEq(a, b Term) Term {
	if a.S == b.S {
		return tTrue()
	}
	if a.Sort == sF64 || a.Sort == sF32 {
		// structural equality on floats is never what Go means; callers use fpEq.
		return Term{"(= " + a.S + " " + b.S + ")", sBool}
	}
	return Term{"(= " + a.S + " " + b.S + ")", sBool}
}

func tIte(c, a, b Term) Term {
	if c.S == "true" {
		return a
	}
	if c.S == "false" {
		return b
	}
	if a.S == b.S {
		return a
	}
	return Term{"(ite " + c.S + " " + a.S + " " + b.S + ")", a.Sort}
}

func intLit(v int64) string {
	if v < 0 {
		if v == -9223372036854775808 {
			return "(- 9223372036854775808)"
		}
		return fmt.Sprintf("(- %d)", -v)
	}
	return fmt.Sprintf("%d", v)
}

func bvLit(v uint64, n int) string {
	if n < 64 {
		v &= (uint64(1) << uint(n)) - 1
	}
	return fmt.Sprintf("(_ bv%d %d)", v, n)
}

// ---------------------------------------------------------------------------
// s-expressions (used to read spec files and solver output)

type Sexp struct {
	Atom string
	List []*Sexp
	IsL  bool
}

func (s *Sexp) String() string {
	if !s.IsL {
		return s.Atom
	}
	var parts []string
	for _, c := range s.List {
		parts = append(parts, c.String())
	}
	return "(" + strings.Join(parts, " ") + ")"
}

func parseSexps(src string) ([]*Sexp, error) {
	var out []*Sexp
	pos := 0
	for {
		s, np, err := parseSexp(src, pos)
		if err != nil {
			return out, err
		}
		if s == nil {
			return out, nil
		}
		out = append(out, s)
		pos = np
	}
}

func skipWS(src string, pos int) int {
	for pos < len(src) {
		c := src[pos]
		if c == ';' {
			for pos < len(src) && src[pos] != '\n' {
				pos++
			}
			continue
		}
		if c == ' ' || c == '\t' || c == '\n' || c == '\r' {
			pos++
			continue
		}
		break
	}
	return pos
}

func parseSexp(src string, pos int) (*Sexp, int, error) {
	pos = skipWS(src, pos)
	if pos >= len(src) {
		return nil, pos, nil
	}
	c := src[pos]
	if c == '(' {
		pos++
		node := &Sexp{IsL: true}
		for {
			pos = skipWS(src, pos)
			if pos >= len(src) {
				return nil, pos, fmt.Errorf("unterminated list")
			}
			if src[pos] == ')' {
				return node, pos + 1, nil
			}
			child, np, err := parseSexp(src, pos)
			if err != nil {
				return nil, np, err
			}
			node.List = append(node.List, child)
			pos = np
		}
	}
	if c == ')' {
		return nil, pos, fmt.Errorf("unexpected )")
	}
	if c == '"' {
		end := pos + 1
		for end < len(src) {
			if src[end] == '"' {
				if end+1 < len(src) && src[end+1] == '"' {
					end += 2
					continue
				}
				break
			}
			end++
		}
		return &Sexp{Atom: src[pos : end+1]}, end + 1, nil
	}
	if c == '|' {
		end := strings.IndexByte(src[pos+1:], '|')
		if end < 0 {
			return nil, pos, fmt.Errorf("unterminated |")
		}
		return &Sexp{Atom: src[pos : pos+end+2]}, pos + end + 2, nil
	}
	end := pos
	for end < len(src) {
		ch := src[end]
		if ch == ' ' || ch == '\t' || ch == '\n' || ch == '\r' || ch == '(' || ch == ')' || ch == ';' {
			break
		}
		end++
	}
	return &Sexp{Atom: src[pos:end]}, end, nil
}

// symbolsIn returns the set of atoms occurring in an SMT text (cheap tokenizer).
func symbolsIn(s string, into map[string]bool) {
	i := 0
	for i < len(s) {
		c := s[i]
		if c == '(' || c == ')' || c == ' ' || c == '\n' || c == '\t' {
			i++
			continue
		}
		if c == '|' {
			j := strings.IndexByte(s[i+1:], '|')
			if j < 0 {
				return
			}
			into[s[i:i+j+2]] = true
			i += j + 2
			continue
		}
		if c == '"' {
			j := i + 1
			for j < len(s) && s[j] != '"' {
				j++
			}
			i = j + 1
			continue
		}
		j := i
		for j < len(s) {
			ch := s[j]
			if ch == '(' || ch == ')' || ch == ' ' || ch == '\n' || ch == '\t' {
				break
			}
			j++
		}
		into[s[i:j]] = true
		i = j
	}
}

func sortedKeys[V any](m map[string]V) []string {
	ks := make([]string, 0, len(m))
	for k := range m {
		ks = append(ks, k)
	}
	sort.Strings(ks)
	return ks
}

// smtName makes a string usable as an SMT simple symbol.
func smtName(s string) string {
	var b strings.Builder
	for _, r := range s {
		switch {
		case r >= 'a' && r <= 'z', r >= 'A' && r <= 'Z', r >= '0' && r <= '9', r == '_', r == '.', r == '$', r == '!', r == '@', r == '#':
			b.WriteRune(r)
		case r == '*':
			b.WriteString("P")
		case r == '/', r == '(', r == ')', r == ' ', r == '[', r == ']', r == ',', r == '{', r == '}':
			b.WriteRune('_')
		default:
			b.WriteString(fmt.Sprintf("_%x", r))
		}
	}
	return b.String()
}
