package main

import (
	"bytes"
	"context"
	"fmt"
	"os"
	"os/exec"
	"path/filepath"
	"sort"
	"strings"
	"sync"
	"time"
)

type Verdict struct {
	Status  string // unsat, sat, unknown, timeout, error
	Solver  string
	Seconds float64
	Output  string
	File    string
	All     map[string]string // per-solver status
}

// smtText assembles the complete query of an obligation.
func (o *Oblig) smtText(withModel bool) string {
	if o.Raw != "" {
		return o.Raw
	}
	vc := o.vc
	var b strings.Builder
	b.WriteString("; obligation " + o.Name + "\n")
	if o.Pos != "" {
		b.WriteString("; at " + o.Pos + "\n")
	}
	if o.Desc != "" {
		b.WriteString("; " + strings.ReplaceAll(o.Desc, "\n", " ") + "\n")
	}
	if withModel {
		b.WriteString("(set-option :produce-models true)\n")
	}
	b.WriteString("(set-logic ALL)\n")
	b.WriteString(basePrelude)
	b.WriteString(vc.sorts.decls())
	// string literals: pairwise distinct, known lengths
	if len(vc.strLits) > 0 {
		lits := make([]string, 0, len(vc.strLits))
		byName := map[string]string{}
		for s, n := range vc.strLits {
			lits = append(lits, n)
			byName[n] = s
		}
		sort.Strings(lits)
		for _, n := range lits {
			fmt.Fprintf(&b, "(declare-const %s Str) ; %q\n", n, byName[n])
			fmt.Fprintf(&b, "(assert (= (gs.len %s) %d))\n", n, len(byName[n]))
			fmt.Fprintf(&b, "(assert (= (gs.lenbv %s) (_ bv%d 64)))\n", n, len(byName[n]))
		}
		if len(lits) > 1 {
			fmt.Fprintf(&b, "(assert (distinct %s))\n", strings.Join(lits, " "))
		}
		// first bytes (needed for the "$" prefix tests)
		for _, n := range lits {
			s := byName[n]
			for i := 0; i < len(s) && i < 2; i++ {
				fmt.Fprintf(&b, "(assert (= (gs.at %s %d) (_ bv%d 8)))\n", n, i, s[i])
				fmt.Fprintf(&b, "(assert (= (gs.atbv %s (_ bv%d 64)) (_ bv%d 8)))\n", n, i, s[i])
			}
		}
	}
	var body strings.Builder
	// slicing: an axiom that only defines a fresh constant (Item.Owner) is printed
	// only if that constant is reachable from the goal through the formulas that
	// are printed. Dropping an assumption is sound for a validity query.
	items := vc.items[:o.NItems]
	rel := map[string]bool{}
	symbolsIn(o.Goal, rel)
	defBody := map[string]string{}
	for _, it := range items {
		switch {
		case it.Decl && strings.HasPrefix(it.Text, "(define-fun "):
			rest := it.Text[len("(define-fun "):]
			if i := strings.IndexByte(rest, ' '); i > 0 {
				defBody[rest[:i]] = rest[i:]
			}
		case !it.Decl && it.Owner == "":
			symbolsIn(it.Text, rel)
		}
	}
	keep := make([]bool, len(items))
	expanded := map[string]bool{}
	for changed := true; changed; {
		changed = false
		for s := range rel {
			if b, ok := defBody[s]; ok && !expanded[s] {
				expanded[s] = true
				symbolsIn(b, rel)
				changed = true
			}
		}
		for i, it := range items {
			if it.Owner != "" && !keep[i] && rel[it.Owner] {
				keep[i] = true
				symbolsIn(it.Text, rel)
				changed = true
			}
		}
	}
	for i, it := range items {
		if it.Owner != "" && !keep[i] {
			continue
		}
		if it.Decl {
			body.WriteString(it.Text)
		} else {
			body.WriteString("(assert " + it.Text + ")")
		}
		body.WriteString("\n")
	}
	if o.Cover {
		body.WriteString("(assert " + o.Goal + ")\n")
	} else {
		body.WriteString("(assert (not " + o.Goal + "))\n")
	}
	// cover (reachability) queries omit the quantified axioms
	b.WriteString(vc.w.specText(vc.uses, !o.Cover, body.String()))
	b.WriteString(body.String())
	b.WriteString("(check-sat)\n")
	if withModel {
		if len(vc.params) > 0 {
			b.WriteString("(get-value (" + strings.Join(vc.params, " ") + "))\n")
		}
	}
	return b.String()
}

type solverSpec struct {
	name string
	args func(file string, timeoutS int) []string
}

var solvers = []solverSpec{
	{"z3-new", func(file string, t int) []string { return []string{"z3-new", fmt.Sprintf("-T:%d", t), file} }},
	{"z3", func(file string, t int) []string { return []string{"z3", fmt.Sprintf("-T:%d", t), file} }},
	{"cvc5", func(file string, t int) []string {
		return []string{"cvc5", "--incremental", "--fp-exp", fmt.Sprintf("--tlimit=%d", t*1000), file}
	}},
	// the same solver with enumerative quantifier instantiation: decides quantified
	// goals on which E-matching alone answers unknown and z3 loops on the recursive axioms
	{"cvc5-enum", func(file string, t int) []string {
		return []string{"cvc5", "--incremental", "--fp-exp", "--enum-inst", fmt.Sprintf("--tlimit=%d", t*1000), file}
	}},
}

// retrySolvers: further configurations that only take part when a registered obligation
// has failed the normal race (quantifier instantiation is sensitive to the solver's
// random seed: a goal that z3 proves in two seconds with one seed can run into the
// timeout with another; a valid goal must not become an alarm for that reason).
var retrySolvers = []solverSpec{
	{"z3-new-s2", func(file string, t int) []string {
		return []string{"z3-new", "smt.random_seed=2", "sat.random_seed=2", fmt.Sprintf("-T:%d", t), file}
	}},
	{"z3-new-s5", func(file string, t int) []string {
		return []string{"z3-new", "smt.random_seed=5", "sat.random_seed=5", fmt.Sprintf("-T:%d", t), file}
	}},
	{"z3-s3", func(file string, t int) []string {
		return []string{"z3", "smt.random_seed=3", "sat.random_seed=3", fmt.Sprintf("-T:%d", t), file}
	}},
}

func runSolver(parent context.Context, sp solverSpec, file string, timeoutS int) (status string, out string, secs float64) {
	ctx, cancel := context.WithTimeout(parent, time.Duration(timeoutS+2)*time.Second)
	defer cancel()
	args := sp.args(file, timeoutS)
	cmd := exec.CommandContext(ctx, args[0], args[1:]...)
	var buf bytes.Buffer
	cmd.Stdout = &buf
	cmd.Stderr = &buf
	start := time.Now()
	cmd.Run()
	secs = time.Since(start).Seconds()
	out = buf.String()
	first := ""
	for _, ln := range strings.Split(out, "\n") {
		ln = strings.TrimSpace(ln)
		if ln == "" || strings.HasPrefix(ln, "WARNING") {
			continue // z3 prints pattern warnings before the verdict
		}
		first = ln
		break
	}
	switch first {
	case "unsat", "sat", "unknown":
		status = first
	case "timeout":
		status = "timeout"
	default:
		if ctx.Err() != nil || strings.Contains(out, "timeout") || strings.Contains(out, "interrupted") {
			status = "timeout"
		} else {
			status = "error"
		}
	}
	return
}

// discharge runs the solver race on one obligation.
func discharge(o *Oblig, outDir string, timeoutS int, which []string, all bool) Verdict {
	file := filepath.Join(outDir, smtName(strings.ReplaceAll(o.Name, "/", "__"))+".smt2")
	os.MkdirAll(outDir, 0o755)
	os.WriteFile(file, []byte(o.smtText(false)), 0o644)
	v := Verdict{File: file, All: map[string]string{}}
	if o.Cover && timeoutS > 5 {
		// reachability queries: only a quick `unsat` (vacuity) matters; sat / unknown / timeout are all fine
		timeoutS = 5
	}
	type res struct {
		name, status, out string
		secs              float64
	}
	var use []solverSpec
	for _, sp := range solvers {
		if len(which) == 0 {
			use = append(use, sp)
			continue
		}
		for _, w := range which {
			if w == sp.name {
				use = append(use, sp)
			}
		}
	}
	for _, sp := range retrySolvers {
		for _, w := range which {
			if w == sp.name {
				use = append(use, sp)
			}
		}
	}
	ch := make(chan res, len(use))
	pctx, pcancel := context.WithCancel(context.Background())
	defer pcancel()
	var wg sync.WaitGroup
	for _, sp := range use {
		wg.Add(1)
		go func(sp solverSpec) {
			defer wg.Done()
			st, out, secs := runSolver(pctx, sp, file, timeoutS)
			ch <- res{sp.name, st, out, secs}
		}(sp)
	}
	go func() { wg.Wait(); close(ch) }()
	want := "unsat"
	if o.Cover {
		want = "sat"
	}
	best := res{status: "unknown"}
	got := false
	for r := range ch {
		v.All[r.name] = r.status
		if r.status == "error" {
			v.Output += r.name + ": " + firstLines(r.out, 3) + "\n"
		}
		if got {
			continue
		}
		if r.status == "unsat" || r.status == "sat" {
			best = r
			got = true
			if !all {
				// do not wait for the others
				v.Status, v.Solver, v.Seconds = r.status, r.name, r.secs
				_ = want
				pcancel()
				return v
			}
		} else if best.name == "" || statusRank(r.status) > statusRank(best.status) {
			best = r
		}
	}
	v.Status, v.Solver, v.Seconds = best.status, best.name, best.secs
	return v
}

// statusRank orders inconclusive verdicts: a timeout says more than unknown, and
// unknown more than a back end that rejected the input.
func statusRank(s string) int {
	switch s {
	case "unsat", "sat":
		return 3
	case "timeout":
		return 2
	case "unknown":
		return 1
	}
	return 0
}

func firstLines(s string, n int) string {
	lines := strings.Split(s, "\n")
	if len(lines) > n {
		lines = lines[:n]
	}
	return strings.Join(lines, " | ")
}

// modelFor re-runs a refuted obligation asking for the values of the inputs.
func modelFor(o *Oblig, outDir string, timeoutS int, solver string) (map[string]string, string) {
	file := filepath.Join(outDir, smtName(strings.ReplaceAll(o.Name, "/", "__"))+".model.smt2")
	os.WriteFile(file, []byte(o.smtText(true)), 0o644)
	for _, sp := range solvers {
		if sp.name != solver && solver != "" {
			continue
		}
		st, out, _ := runSolver(context.Background(), sp, file, timeoutS)
		if st != "sat" {
			continue
		}
		rest := out
		if i := strings.Index(out, "sat\n"); i >= 0 {
			rest = out[i+4:]
		}
		sx, err := parseSexps(rest)
		if err != nil || len(sx) == 0 {
			return nil, out
		}
		m := map[string]string{}
		for _, pair := range sx[0].List {
			if pair.IsL && len(pair.List) == 2 {
				m[pair.List[0].String()] = pair.List[1].String()
			}
		}
		return m, out
	}
	return nil, ""
}
