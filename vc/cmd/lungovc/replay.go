package main

import (
	"bytes"
	"context"
	"encoding/json"
	"fmt"
	"go/types"
	"os"
	"os/exec"
	"path/filepath"
	"strconv"
	"strings"
	"time"
)

// ---------------------------------------------------------------------------
// lemma files: /verif/specs/lemmas/*.smt2

func (w *World) lemmaObligations() []*Oblig {
	files, _ := filepath.Glob(filepath.Join(w.verifDir, "specs", "lemmas", "*.smt2"))
	var out []*Oblig
	for _, f := range files {
		data, err := os.ReadFile(f)
		if err != nil {
			continue
		}
		base := strings.TrimSuffix(filepath.Base(f), ".smt2")
		var props []string
		mods := map[string]bool{}
		var decls strings.Builder
		type goal struct{ name, text string }
		var goals []goal
		var cur *goal
		for _, line := range strings.Split(string(data), "\n") {
			switch {
			case strings.HasPrefix(line, ";; props:"):
				props = strings.Fields(strings.TrimPrefix(line, ";; props:"))
			case strings.HasPrefix(line, ";; modules:"):
				for _, m := range strings.Fields(strings.TrimPrefix(line, ";; modules:")) {
					mods[m] = true
				}
			case strings.HasPrefix(line, ";; goal"):
				goals = append(goals, goal{name: strings.TrimSpace(strings.TrimPrefix(line, ";; goal"))})
				cur = &goals[len(goals)-1]
			case strings.HasPrefix(strings.TrimSpace(line), ";"):
			default:
				if cur != nil {
					cur.text += line + "\n"
				} else {
					decls.WriteString(line + "\n")
				}
			}
		}
		for _, g := range goals {
			body := decls.String() + "(assert (not " + strings.TrimSpace(g.text) + "))\n"
			var b strings.Builder
			b.WriteString("; lemma " + base + "/" + g.name + "\n(set-logic ALL)\n")
			b.WriteString(basePrelude)
			b.WriteString(w.specText(mods, true, body))
			b.WriteString(body)
			b.WriteString("(check-sat)\n")
			out = append(out, &Oblig{Name: "lemma/" + base + "/" + g.name, Kind: "lemma", Tags: props, Raw: b.String(), Func: "lemma/" + base, Desc: strings.TrimSpace(g.text), Pos: "specs/lemmas/" + base + ".smt2"})
		}
	}
	return out
}

// ---------------------------------------------------------------------------
// running Go tests against the real code with an overlay

func goTestOverlay(repo, pkgDir, testFile, runPat string, timeoutS int) (passed bool, output string) {
	tmp, err := os.MkdirTemp("", "lungovc.")
	if err != nil {
		return false, err.Error()
	}
	defer os.RemoveAll(tmp)
	dir := filepath.Join(repo, pkgDir)
	ov := map[string]map[string]string{"Replace": {}}
	entries, _ := os.ReadDir(dir)
	for _, e := range entries {
		if strings.HasSuffix(e.Name(), "_test.go") {
			ov["Replace"][filepath.Join(dir, e.Name())] = ""
		}
	}
	ov["Replace"][filepath.Join(dir, "zz_lungovc_replay_test.go")] = testFile
	data, _ := json.Marshal(ov)
	ovFile := filepath.Join(tmp, "overlay.json")
	os.WriteFile(ovFile, data, 0o644)
	ctx, cancel := context.WithTimeout(context.Background(), time.Duration(timeoutS+60)*time.Second)
	defer cancel()
	cmd := exec.CommandContext(ctx, "go1.26.8", "test", "-overlay", ovFile, "-vet=off", "-count=1", fmt.Sprintf("-timeout=%ds", timeoutS), "-run", runPat, ".")
	cmd.Dir = dir
	cmd.Env = append(os.Environ(), "GOFLAGS=-mod=mod", "GOPROXY=off", "GOSUMDB=off", "GOTOOLCHAIN=local", "GOCACHE="+goCache())
	var buf bytes.Buffer
	cmd.Stdout = &buf
	cmd.Stderr = &buf
	err = cmd.Run()
	out := buf.String()
	return err == nil && strings.Contains(out, "ok"), out
}

func goCache() string {
	if c := os.Getenv("GOCACHE"); c != "" {
		return c
	}
	home, _ := os.UserHomeDir()
	return filepath.Join(home, ".cache", "go-build")
}

// runKnownReplay runs the recorded witness of a known finding; true iff the defect reproduces.
func (w *World) runKnownReplay(k *KnownFinding, verif string) bool {
	file := filepath.Join(verif, "known", k.Replay)
	if _, err := os.Stat(file); err != nil {
		return false
	}
	run := k.Run
	if run == "" {
		run = "TestReplay"
	}
	ok, out := goTestOverlay(w.repo, k.Pkg, file, "^"+run+"$", 120)
	if !ok {
		os.MkdirAll(filepath.Join(verif, "out"), 0o755)
		os.WriteFile(filepath.Join(verif, "out", "known_"+k.ID+".log"), []byte(out), 0o644)
	}
	return ok
}

// ---------------------------------------------------------------------------
// counterexample replay

// goLiteral turns a model value into a Go expression of the given type.
func goLiteral(val *Sexp, t types.Type, pkgName string) (string, bool) {
	s := val.String()
	switch u := t.Underlying().(type) {
	case *types.Basic:
		switch {
		case u.Kind() == types.Bool:
			return s, s == "true" || s == "false"
		case u.Info()&types.IsInteger != 0:
			if n, ok := parseBVorInt(val); ok {
				bits, signed, _ := intInfo(t)
				if signed {
					var v int64
					switch bits {
					case 8:
						v = int64(int8(n))
					case 16:
						v = int64(int16(n))
					case 32:
						v = int64(int32(n))
					default:
						v = int64(n)
					}
					return fmt.Sprintf("%s(%d)", types.TypeString(t, qual(pkgName)), v), true
				}
				return fmt.Sprintf("%s(%d)", types.TypeString(t, qual(pkgName)), n), true
			}
		case u.Kind() == types.Float64:
			if bits, ok := parseFP(val, 11, 52); ok {
				return fmt.Sprintf("math.Float64frombits(0x%x)", bits), true
			}
		}
	case *types.Interface:
		if isEmptyInterface(t) {
			return valLiteral(val, pkgName)
		}
	}
	return "", false
}

func qual(pkgName string) types.Qualifier {
	return func(p *types.Package) string {
		if p.Name() == pkgName {
			return ""
		}
		return p.Name()
	}
}

func parseBVorInt(v *Sexp) (uint64, bool) {
	s := v.String()
	if strings.HasPrefix(s, "#x") {
		n, err := strconv.ParseUint(s[2:], 16, 64)
		return n, err == nil
	}
	if strings.HasPrefix(s, "#b") {
		n, err := strconv.ParseUint(s[2:], 2, 64)
		return n, err == nil
	}
	if v.IsL && len(v.List) == 3 && v.List[0].Atom == "_" && strings.HasPrefix(v.List[1].Atom, "bv") {
		n, err := strconv.ParseUint(v.List[1].Atom[2:], 10, 64)
		return n, err == nil
	}
	if v.IsL && len(v.List) == 2 && v.List[0].Atom == "-" {
		n, err := strconv.ParseUint(v.List[1].Atom, 10, 64)
		return uint64(-int64(n)), err == nil
	}
	if !v.IsL {
		n, err := strconv.ParseUint(v.Atom, 10, 64)
		return n, err == nil
	}
	return 0, false
}

func parseFP(v *Sexp, eb, sb int) (uint64, bool) {
	if !v.IsL || len(v.List) == 0 {
		return 0, false
	}
	if v.List[0].Atom == "fp" && len(v.List) == 4 {
		sign, ok1 := parseBVorInt(v.List[1])
		exp, ok2 := parseBVorInt(v.List[2])
		man, ok3 := parseBVorInt(v.List[3])
		if ok1 && ok2 && ok3 {
			return sign<<63 | exp<<52 | man, true
		}
	}
	if v.List[0].Atom == "_" && len(v.List) >= 2 {
		switch v.List[1].Atom {
		case "NaN":
			return 0x7ff8000000000001, true
		case "+oo":
			return 0x7ff0000000000000, true
		case "-oo":
			return 0xfff0000000000000, true
		case "+zero":
			return 0, true
		case "-zero":
			return 0x8000000000000000, true
		}
	}
	return 0, false
}

func valLiteral(v *Sexp, pkgName string) (string, bool) {
	missing := "bsonkit.Missing"
	if pkgName == "bsonkit" {
		missing = "Missing"
	}
	if !v.IsL {
		switch v.Atom {
		case "VNil":
			return "nil", true
		case "VNull":
			return "primitive.Null{}", true
		case "VMissing":
			return missing, true
		}
		return "", false
	}
	if len(v.List) < 2 {
		return "", false
	}
	arg := v.List[1]
	switch v.List[0].Atom {
	case "VI32":
		if n, ok := parseBVorInt(arg); ok {
			return fmt.Sprintf("int32(%d)", int32(n)), true
		}
	case "VI64":
		if n, ok := parseBVorInt(arg); ok {
			return fmt.Sprintf("int64(%d)", int64(n)), true
		}
	case "VDate":
		if n, ok := parseBVorInt(arg); ok {
			return fmt.Sprintf("primitive.DateTime(%d)", int64(n)), true
		}
	case "VF64":
		if b, ok := parseFP(arg, 11, 52); ok {
			return fmt.Sprintf("math.Float64frombits(0x%x)", b), true
		}
	case "VBool":
		return arg.String(), true
	case "VDec":
		if arg.IsL && len(arg.List) == 3 {
			h, ok1 := parseBVorInt(arg.List[1])
			l, ok2 := parseBVorInt(arg.List[2])
			if ok1 && ok2 {
				return fmt.Sprintf("primitive.NewDecimal128(0x%x, 0x%x)", h, l), true
			}
		}
	case "VTs":
		if arg.IsL && len(arg.List) == 3 {
			t, ok1 := parseBVorInt(arg.List[1])
			i, ok2 := parseBVorInt(arg.List[2])
			if ok1 && ok2 {
				return fmt.Sprintf("primitive.Timestamp{T: %d, I: %d}", t, i), true
			}
		}
	}
	return "", false
}

// replayCounterexample turns a sat model into a Go test of the real function.
// For safety obligations the test passes iff the real code panics; for
// postconditions iff the real code returns the values the model predicts for
// the violating execution.
func (w *World) replayCounterexample(oc *checkOutcome, outDir, replayDir string, log *string) (string, bool) {
	o := oc.o
	if o.vc == nil || o.vc.fn == nil {
		return "", false
	}
	fn := o.vc.fn
	if fn.Signature.Recv() != nil || fn.Parent() != nil {
		*log += "replay: methods and closures are not replayed automatically\n"
		return "", false
	}
	isSafe := strings.HasPrefix(o.Kind, "safe/")
	if !isSafe && o.Kind != "post" {
		return "", false
	}
	model, raw := modelFor(o, outDir, 30, "")
	if model == nil {
		*log += "replay: no model obtained\n" + firstLines(raw, 5) + "\n"
		return "", false
	}
	pkgName := fn.Pkg.Pkg.Name()
	var args []string
	for i, p := range fn.Params {
		mv, ok := model[o.vc.params[i]]
		if !ok {
			*log += "replay: model has no value for " + p.Name() + "\n"
			return "", false
		}
		sx, err := parseSexps(mv)
		if err != nil || len(sx) != 1 {
			return "", false
		}
		lit, ok := goLiteral(sx[0], p.Type(), pkgName)
		if !ok {
			*log += fmt.Sprintf("replay: cannot express %s = %s as a Go literal\n", p.Name(), mv)
			return "", false
		}
		args = append(args, lit)
	}
	call := fn.Name() + "(" + strings.Join(args, ", ") + ")"
	var body strings.Builder
	fmt.Fprintf(&body, "package %s\n\nimport (\n\t\"math\"\n\t\"testing\"\n\n\t\"go.mongodb.org/mongo-driver/bson/primitive\"\n)\n\nvar _ = math.Pi\nvar _ = primitive.Null{}\n\n", pkgName)
	fmt.Fprintf(&body, "// counterexample of obligation %s\n// %s\n", o.Name, o.Desc)
	if isSafe {
		fmt.Fprintf(&body, "func TestReplay(t *testing.T) {\n\tdefer func() {\n\t\tif r := recover(); r != nil {\n\t\t\tt.Logf(\"reproduced: panic: %%v\", r)\n\t\t\treturn\n\t\t}\n\t\tt.Fatalf(\"no panic\")\n\t}()\n\t%s\n}\n", call)
	} else {
		// expected (model) results
		if len(o.RetTerms) == 0 {
			return "", false
		}
		rm, _ := modelValues(o, outDir, o.RetTerms)
		if rm == nil {
			return "", false
		}
		var lhs, conds []string
		for i, rt := range o.RetTerms {
			sx, err := parseSexps(rm[rt])
			if err != nil || len(sx) != 1 {
				return "", false
			}
			lit, ok := goLiteral(sx[0], fn.Signature.Results().At(i).Type(), pkgName)
			if !ok {
				*log += "replay: cannot express the predicted result as a Go literal\n"
				return "", false
			}
			lhs = append(lhs, fmt.Sprintf("r%d", i))
			conds = append(conds, fmt.Sprintf("reflect.DeepEqual(interface{}(r%d), interface{}(%s))", i, lit))
		}
		bs := strings.Replace(body.String(), "\"math\"\n", "\"math\"\n\t\"reflect\"\n", 1)
		body.Reset()
		body.WriteString(bs)
		fmt.Fprintf(&body, "func TestReplay(t *testing.T) {\n\t%s := %s\n\tif %s {\n\t\tt.Logf(\"reproduced: the real code returns the value that violates the clause\")\n\t\treturn\n\t}\n\tt.Fatalf(\"real code returned %%v\", []interface{}{%s})\n}\n",
			strings.Join(lhs, ", "), call, strings.Join(conds, " && "), strings.Join(lhs, ", "))
	}
	file := filepath.Join(replayDir, smtName(strings.ReplaceAll(o.Name, "/", "__"))+"_test.go.txt")
	os.WriteFile(file, []byte(body.String()), 0o644)
	pkgDir := strings.TrimPrefix(strings.TrimPrefix(fn.Pkg.Pkg.Path(), repoModule), "/")
	ok, out := goTestOverlay(w.repo, pkgDir, file, "^TestReplay$", 60)
	*log += "replay test: " + file + "\n" + firstLines(out, 12) + "\n"
	if !ok {
		return "", false
	}
	return file, true
}

// modelValues asks for the model values of additional terms.
func modelValues(o *Oblig, outDir string, terms []string) (map[string]string, string) {
	saved := o.vc.params
	o.vc.params = terms
	defer func() { o.vc.params = saved }()
	return modelFor(o, outDir, 30, "")
}
