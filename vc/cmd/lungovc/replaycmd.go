package main

import (
	"flag"
	"fmt"
	"os"
	"path/filepath"
	"regexp"
	"strings"
)

// cmdReplay re-runs a replay file written by a check (or kept under /verif/known).
//
// Two kinds of file exist. A Go test (it starts with "package ..."): a
// counterexample of a failed obligation, or the witness of a known finding. It is
// compiled into the package of the current tree through an overlay (the repository
// is not written to) and run; the test passes iff the failure reproduces, in which
// case the command exits 1. An obligation report (it starts with "obligation: "):
// written when the verifier gave no input that fails; the file names the failed
// obligation and carries the solver output. The command prints it, generates the
// verification condition of that obligation again from the current tree and exits 1
// if it still does not discharge, 0 if it does.
func cmdReplay(args []string) {
	fs := flag.NewFlagSet("replay", flag.ExitOnError)
	file := fs.String("file", "", "replay file")
	repo := fs.String("repo", "/repo", "repository")
	timeout := fs.Int("timeout", 30, "solver timeout (s) for an obligation report")
	fs.Parse(args)
	if abs, err := filepath.Abs(*file); err == nil {
		*file = abs
	}
	data, err := os.ReadFile(*file)
	if err != nil {
		fmt.Fprintln(os.Stderr, "replay:", err)
		os.Exit(2)
	}
	text := string(data)
	trimmed := strings.TrimSpace(text)
	if strings.HasPrefix(trimmed, "package ") {
		pkgName := strings.Fields(trimmed)[1]
		pkgDir := pkgName
		if pkgName == "lungo" {
			pkgDir = "."
		}
		passed, out := goTestOverlay(*repo, pkgDir, *file, "^TestReplay$", 120)
		fmt.Print(out)
		if passed {
			fmt.Printf("replay: REPRODUCED on the current tree (%s)\n", *file)
			os.Exit(1)
		}
		fmt.Printf("replay: not reproduced on the current tree (%s)\n", *file)
		os.Exit(0)
	}
	name := ""
	for _, l := range strings.Split(text, "\n") {
		if strings.HasPrefix(l, "obligation: ") {
			name = strings.TrimSpace(strings.TrimPrefix(l, "obligation: "))
			break
		}
	}
	if name == "" {
		fmt.Fprintln(os.Stderr, "replay: neither a Go test nor an obligation report:", *file)
		os.Exit(2)
	}
	fmt.Print(text)
	fmt.Println("---- the obligation on the current tree ----")
	fn := name
	if i := strings.Index(name, "/"); i >= 0 {
		fn = name[:i]
	}
	cmdVerify([]string{"-repo", *repo, "-func", "^" + regexp.QuoteMeta(fn) + "$", "-only", "^" + regexp.QuoteMeta(name) + "$",
		"-timeout", fmt.Sprint(*timeout), "-out", "/verif/out/replay"})
	if lastVerifyTotal == 0 {
		fmt.Println("replay: the obligation is not generated from the current tree any more (the code or the contract it belonged to changed)")
		os.Exit(1)
	}
	if lastVerifyOK < lastVerifyTotal {
		fmt.Println("replay: STILL FAILS on the current tree (no failing input is known: see the solver output above)")
		os.Exit(1)
	}
	fmt.Println("replay: the obligation discharges on the current tree")
	os.Exit(0)
}
