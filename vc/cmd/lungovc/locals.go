package main

import (
	"go/ast"
	"go/token"
	"sort"

	"golang.org/x/tools/go/ssa"
)

// Contracts name locals of the function (loop counters, the asserted operands).
// A pure rename of such a local must not turn into an alarm, so a contract may
// record the locals of its function in declaration order:
//
//	//@   locals l r i res
//
// When a clause mentions a name the current function does not declare, the
// recorded list is aligned with the list declared now (names that still exist
// are anchors; between two anchors a run of equal length is paired by
// position) and the name is resolved through that pairing. A wrong pairing can
// only make an obligation unprovable, never provable by mistake: invariants
// are auxiliary formulas and every obligation generated from them is still
// discharged on the code as it is.

// declaredLocals lists the names a function body declares, in source order,
// each once (nested function literals are separate functions and are skipped).
func declaredLocals(fn *ssa.Function) []string {
	var body *ast.BlockStmt
	switch n := fn.Syntax().(type) {
	case *ast.FuncDecl:
		body = n.Body
	case *ast.FuncLit:
		body = n.Body
	}
	if body == nil {
		return nil
	}
	type def struct {
		name string
		pos  token.Pos
	}
	var defs []def
	add := func(e ast.Expr) {
		if id, ok := e.(*ast.Ident); ok && id.Name != "_" {
			defs = append(defs, def{id.Name, id.Pos()})
		}
	}
	ast.Inspect(body, func(n ast.Node) bool {
		switch x := n.(type) {
		case *ast.FuncLit:
			return false
		case *ast.AssignStmt:
			if x.Tok == token.DEFINE {
				for _, l := range x.Lhs {
					add(l)
				}
			}
		case *ast.RangeStmt:
			if x.Tok == token.DEFINE {
				if x.Key != nil {
					add(x.Key)
				}
				if x.Value != nil {
					add(x.Value)
				}
			}
		case *ast.ValueSpec:
			for _, id := range x.Names {
				add(id)
			}
		}
		return true
	})
	sort.SliceStable(defs, func(i, j int) bool { return defs[i].pos < defs[j].pos })
	seen := map[string]bool{}
	var out []string
	for _, d := range defs {
		if !seen[d.name] {
			seen[d.name] = true
			out = append(out, d.name)
		}
	}
	return out
}

// localAliases pairs the locals recorded in the contract with the locals
// declared now and returns recorded name -> current name for those that differ.
func localAliases(old, now []string) map[string]string {
	alias := map[string]string{}
	if len(old) == 0 || len(now) == 0 {
		return alias
	}
	// longest common subsequence by name: the anchors
	n, m := len(old), len(now)
	lcs := make([][]int, n+1)
	for i := range lcs {
		lcs[i] = make([]int, m+1)
	}
	for i := n - 1; i >= 0; i-- {
		for j := m - 1; j >= 0; j-- {
			if old[i] == now[j] {
				lcs[i][j] = lcs[i+1][j+1] + 1
			} else if lcs[i+1][j] >= lcs[i][j+1] {
				lcs[i][j] = lcs[i+1][j]
			} else {
				lcs[i][j] = lcs[i][j+1]
			}
		}
	}
	pairGap := func(a, b []string) {
		if len(a) == len(b) {
			for k := range a {
				alias[a[k]] = b[k]
			}
		}
	}
	i, j, gi, gj := 0, 0, 0, 0
	for i < n && j < m {
		switch {
		case old[i] == now[j]:
			pairGap(old[gi:i], now[gj:j])
			i++
			j++
			gi, gj = i, j
		case lcs[i+1][j] >= lcs[i][j+1]:
			i++
		default:
			j++
		}
	}
	pairGap(old[gi:], now[gj:])
	return alias
}

// aliasOf resolves a name recorded in the contract to the name the function uses now.
func (f *Frame) aliasOf(name string) (string, bool) {
	if f == nil || f.con == nil || len(f.con.Locals) == 0 || f.fn == nil {
		return "", false
	}
	if f.alias == nil {
		f.alias = localAliases(f.con.Locals, declaredLocals(f.fn))
	}
	to, ok := f.alias[name]
	return to, ok && to != name
}
