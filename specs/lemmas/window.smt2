;; props: C14 C13 C11
; lemma/window: the 64-bit formulations of the $slice windows used in the
; contracts agree with the reference definitions computed in 128-bit arithmetic,
; for every array length 0 <= n <= 2^48 and every 64-bit skip / limit / count.
;; modules: window
(declare-const n (_ BitVec 64)) (declare-const s (_ BitVec 64)) (declare-const l (_ BitVec 64))
(define-fun lenOK () Bool (and (bvsle (_ bv0 64) n) (bvsle n (_ bv281474976710656 64))))
;; goal pair-start
(=> lenOK (= (pairStart n s) (pairStartW n s)))
;; goal pair-end
(=> (and lenOK (bvsle (_ bv0 64) l)) (= (pairEnd n s l) (pairEndW n s l)))
;; goal count-start
(=> lenOK (= (countStart n s) (countStartW n s)))
;; goal count-end
(=> lenOK (= (countEnd n s) (countEndW n s)))
;; goal pair-within
(=> (and lenOK (bvsle (_ bv0 64) l)) (and (bvsle (_ bv0 64) (pairStart n s)) (bvsle (pairStart n s) (pairEnd n s l)) (bvsle (pairEnd n s l) n)))
;; goal count-within
(=> lenOK (and (bvsle (_ bv0 64) (countStart n s)) (bvsle (countStart n s) (countEnd n s)) (bvsle (countEnd n s) n)))
