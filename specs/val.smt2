; constructor index of a Val (dynamic type identity)
(define-fun val.ctor ((v Val)) Int
  (ite ((_ is VNil) v) 0 (ite ((_ is VNull) v) 1 (ite ((_ is VMissing) v) 2 (ite ((_ is VI32) v) 3
  (ite ((_ is VI64) v) 4 (ite ((_ is VF64) v) 5 (ite ((_ is VDec) v) 6 (ite ((_ is VStr) v) 7
  (ite ((_ is VDoc) v) 8 (ite ((_ is VArr) v) 9 (ite ((_ is VBin) v) 10 (ite ((_ is VOid) v) 11
  (ite ((_ is VBool) v) 12 (ite ((_ is VDate) v) 13 (ite ((_ is VTs) v) 14 (ite ((_ is VRegex) v) 15
  (+ 100 (tid v)))))))))))))))))))
