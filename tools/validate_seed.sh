#!/bin/sh
# tools/validate_seed.sh <src-dir> <k> <id>
# Confirms a seeded change delivered by a sub-agent (<src-dir>/change<k>.diff,
# <src-dir>/demo<k>/main.go) in a fresh scratch worktree of /repo's pinned
# library commit: it applies, builds, the runnable baseline tests still pass,
# and the demonstration passes without it and fails with it. On success the
# change is stored as /verif/seeded/<id>/ (patch.diff, demo/main.go, meta.json is
# written by hand afterwards). The scratch worktree is removed in every case.
set -u
SRC=$1; K=$2; ID=$3
export PATH=/opt/veriftools/go1.26.8/bin:$PATH GOFLAGS=-mod=mod GOPROXY=off GOSUMDB=off GOTOOLCHAIN=local
WT=/var/tmp/seedcheck.$$.$ID
cleanup() { git -C /repo worktree remove --force "$WT" >/dev/null 2>&1; rm -rf "$WT"; }
trap cleanup EXIT
# SEED_BASE: the commit the change was written against (default: the pinned library
# commit; changes written after the fix: commits are written against /repo's HEAD)
git -C /repo worktree add -q --detach "$WT" "${SEED_BASE:-f430c3d}" || { echo "$ID: worktree failed"; exit 2; }
mkdir -p "$WT/zz_demo" && cp "$SRC/demo$K/main.go" "$WT/zz_demo/main.go" || { echo "$ID: no demo"; exit 2; }
cd "$WT"
( go run ./zz_demo >"$WT/.demo_orig.log" 2>&1 ); ORIG=$?
git apply "$SRC/change$K.diff" || { echo "$ID: patch does not apply"; exit 2; }
go build ./... >"$WT/.build.log" 2>&1 || { echo "$ID: does not build"; tail -5 "$WT/.build.log"; exit 2; }
go test -vet=off -count=1 ./bsonkit/... ./dbkit/... >"$WT/.test.log" 2>&1; TESTS=$?
( go run ./zz_demo >"$WT/.demo_mut.log" 2>&1 ); MUT=$?
echo "$ID: demo on original exit=$ORIG, baseline tests with change exit=$TESTS, demo with change exit=$MUT"
if [ $ORIG -eq 0 ] && [ $TESTS -eq 0 ] && [ $MUT -ne 0 ]; then
  mkdir -p /verif/seeded/$ID/demo
  cp "$SRC/change$K.diff" /verif/seeded/$ID/patch.diff
  cp "$SRC/demo$K/main.go" /verif/seeded/$ID/demo/main.go
  [ -f "$SRC/change$K.md" ] && cp "$SRC/change$K.md" /verif/seeded/$ID/description.md
  tail -3 "$WT/.demo_mut.log" > /verif/seeded/$ID/demo_output_with_change.txt
  echo "$ID: CONFIRMED"
  exit 0
fi
echo "$ID: NOT CONFIRMED"; tail -3 "$WT/.demo_orig.log" "$WT/.test.log" "$WT/.demo_mut.log"
exit 1
