; ---------------------------------------------------------------------------
; Vocabulary shared by all specifications: the type class of a BSON value (the
; MongoDB comparison order of property C12: null < numbers < strings < documents
; < arrays < binary < ObjectId < bool < date < timestamp < regex), the type
; byte, shallow well-formedness, and the *declaration* of the BSON order cmp.
; The definition of cmp is in cmp.smt2; the functions that only need cmp to be a
; total preorder use order.smt2 instead and never see the definition.

(define-fun class ((v Val)) Int
  (ite (or ((_ is VNil) v) ((_ is VNull) v) ((_ is VMissing) v)) 0
  (ite (or ((_ is VI32) v) ((_ is VI64) v) ((_ is VF64) v) ((_ is VDec) v)) 1
  (ite ((_ is VStr) v) 2 (ite ((_ is VDoc) v) 3 (ite ((_ is VArr) v) 4 (ite ((_ is VBin) v) 5
  (ite ((_ is VOid) v) 6 (ite ((_ is VBool) v) 7 (ite ((_ is VDate) v) 8 (ite ((_ is VTs) v) 9
  (ite ((_ is VRegex) v) 10 (- 1)))))))))))))

; the BSON type byte reported by Inspect
(define-fun btype ((v Val)) (_ BitVec 8)
  (ite (or ((_ is VNil) v) ((_ is VNull) v) ((_ is VMissing) v)) #x0a
  (ite ((_ is VI32) v) #x10 (ite ((_ is VI64) v) #x12 (ite ((_ is VF64) v) #x01 (ite ((_ is VDec) v) #x13
  (ite ((_ is VStr) v) #x02 (ite ((_ is VDoc) v) #x03 (ite ((_ is VArr) v) #x04 (ite ((_ is VBin) v) #x05
  (ite ((_ is VOid) v) #x07 (ite ((_ is VBool) v) #x08 (ite ((_ is VDate) v) #x09 (ite ((_ is VTs) v) #x11
  (ite ((_ is VRegex) v) #x0b #x00)))))))))))))))

; a supported BSON value (shallow): anything but a foreign Go type
(define-fun wf1 ((v Val)) Bool (not ((_ is VOther) v)))

; witness(i) is true of every integer. Writing it into an existential clause
; and into the loop invariant that produces the witness gives the solver a
; trigger term for the instantiation; it does not change the meaning of either.
(declare-fun witness (Int) Bool)
(assert (forall ((i Int)) (! (witness i) :pattern ((witness i)))))

; error values that are package-level variables (ErrNotMatched, ErrEngineClosed, ...):
; an error made by fmt.Errorf / errors.New at run time is never one of them
(declare-fun staticErr (Int) Bool)

; the BSON order (defined in cmp.smt2)
(declare-fun cmp (Val Val) Int)
