package main

import (
	"encoding/json"
	"flag"
	"fmt"
	"os"
	"path/filepath"
	"regexp"
	"sort"
	"strings"
	"time"
)

// ---------------------------------------------------------------------------
// registry and known findings

type RegEntry struct {
	Props  []string `json:"props"`
	Kind   string   `json:"kind"`
	Solver string   `json:"solver,omitempty"`
	Secs   float64  `json:"secs,omitempty"`
}

type Registry struct {
	Note        string               `json:"note"`
	Obligations map[string]*RegEntry `json:"obligations"`
	// Unproved: obligations that are generated from the pinned tree and do not
	// discharge there (verdict at rebaseline time). They are not claimed. The quick
	// tier does not spend solver time on them again (the thorough tier does); an
	// obligation that is in neither list is new and is always tried.
	Unproved map[string]string `json:"unproved,omitempty"`
}

type KnownFinding struct {
	ID          string   `json:"id"`
	Status      string   `json:"status"` // known | fixed
	Property    string   `json:"property"`
	Properties  []string `json:"properties,omitempty"`          // further properties the finding belongs to
	Obligations []string `json:"obligations"`                   // exact obligation names this finding explains
	Patterns    []string `json:"obligation_patterns,omitempty"` // regular expressions over obligation names
	What        string   `json:"what"`
	Witness     string   `json:"witness"`          // the failing input, in words
	Replay      string   `json:"replay,omitempty"` // test file under /verif/known (passes iff the defect reproduces)
	Pkg         string   `json:"pkg,omitempty"`    // package directory the replay is compiled into
	Run         string   `json:"run,omitempty"`    // -run pattern
	Commit      string   `json:"commit,omitempty"` // for fixed entries
}

type KnownFile struct {
	Note     string          `json:"note"`
	Findings []*KnownFinding `json:"findings"`
}

func loadJSON(path string, into interface{}) error {
	data, err := os.ReadFile(path)
	if err != nil {
		return err
	}
	return json.Unmarshal(data, into)
}

// group is the part of an obligation name that is stable under renaming of locals.
func group(o *Oblig) string {
	return groupOf(o.Name, o.Kind)
}

func groupOf(name, kind string) string {
	i := strings.Index(name, "/")
	if i < 0 {
		return name
	}
	fn, rest := name[:i], name[i+1:]
	switch {
	case strings.HasPrefix(kind, "safe/"):
		return fn + "/" + kind
	case kind == "frame":
		return fn + "/frame"
	case kind == "post", kind == "inv-init", kind == "inv-pres", kind == "variant", kind == "callinv", kind == "panics":
		if j := strings.Index(rest, "@"); j >= 0 {
			return fn + "/" + rest[:j]
		}
	case kind == "pre", kind == "decreases":
		if j := strings.LastIndex(rest, "#"); j >= 0 {
			return fn + "/" + rest[:j]
		}
	}
	return name
}

// familyOf is the coarse fallback used when a registered name and its whole
// group have vanished: all obligations of the same function that stem from the
// same sort of contract clause. A registered obligation whose name is gone is
// accepted as renamed only if every obligation of its family that the current
// tree generates is discharged (so nothing that is generated goes unproved),
// and it is an unbound contract if the family is empty.
func familyOf(name, kind string) string {
	i := strings.Index(name, "/")
	if i < 0 {
		return name
	}
	fn := name[:i]
	switch kind {
	case "inv-init", "inv-pres":
		return fn + "/inv"
	case "post":
		return fn + "/post"
	case "variant", "decreases":
		return fn + "/termination"
	case "callinv":
		return fn + "/callinv"
	case "panics":
		return fn + "/panics"
	}
	return name
}

// findingMatches reports whether a known finding lists the obligation (by name or by pattern).
func findingMatches(k *KnownFinding, name string) bool {
	for _, n := range k.Obligations {
		if n == name {
			return true
		}
	}
	for _, pat := range k.Patterns {
		if re, err := regexp.Compile(pat); err == nil && re.MatchString(name) {
			return true
		}
	}
	return false
}

func contractDerived(kind string) bool {
	switch kind {
	case "post", "inv-init", "inv-pres", "variant", "decreases", "lemma", "callinv", "panics":
		return true
	}
	return false
}

// propDeps: the check of a property also discharges the obligations of the
// properties it rests on (every comparison-based operator assumes the contract
// of bsonkit.Compare, i.e. C12). A broken dependency is a violation of the
// dependent property as well.
var propDeps = map[string][]string{
	"C07": {"C12"}, "C10": {"C12"}, "C11": {"C12"}, "C13": {"C12"},
}

// serves reports whether an obligation / contract tagged with tags belongs to
// the check of property p (directly or through propDeps).
func serves(tags []string, p string) bool {
	if hasTag(tags, p) {
		return true
	}
	for _, d := range propDeps[p] {
		if hasTag(tags, d) {
			return true
		}
	}
	return false
}

func hasTag(tags []string, p string) bool {
	for _, t := range tags {
		if t == p {
			return true
		}
	}
	return false
}

// ---------------------------------------------------------------------------
// the check command

type checkOutcome struct {
	o      *Oblig
	v      Verdict
	ok     bool
	reg    bool
	status string // discharged, known-finding, violation, undecided, renamed
	kf     *KnownFinding
	replay string
}

func cmdCheck(args []string) {
	fs := flag.NewFlagSet("check", flag.ExitOnError)
	prop := fs.String("prop", "", "property id (Cxx) or 'all'")
	tier := fs.String("tier", "quick", "quick|thorough")
	repo := fs.String("repo", "/repo", "repository")
	verif := fs.String("verif", "/verif", "verif directory")
	rebase := fs.Bool("rebaseline", false, "rewrite registry.json from this run (development only)")
	fs.Parse(args)
	if *prop == "" {
		fmt.Fprintln(os.Stderr, "check: -prop required")
		os.Exit(2)
	}
	t0 := time.Now()
	seed := 0
	fmt.Sscan(os.Getenv("VERIF_SEED"), &seed)
	w, err := loadWorld(*repo, *verif)
	if err != nil {
		fmt.Fprintln(os.Stderr, "check is not applicable to a tree that does not load:", err)
		os.Exit(2)
	}
	var reg Registry
	loadJSON(filepath.Join(*verif, "registry.json"), &reg)
	if reg.Obligations == nil {
		reg.Obligations = map[string]*RegEntry{}
	}
	var kf KnownFile
	loadJSON(filepath.Join(*verif, "known_findings.json"), &kf)

	props := strings.Split(*prop, ",")
	if *prop == "all" {
		props = nil
		for i := 1; i <= 20; i++ {
			props = append(props, fmt.Sprintf("C%02d", i))
		}
	}
	timeout := 40
	if *tier == "thorough" {
		timeout = 120
	}
	if *rebase {
		timeout = 40
	}
	// generate the VCs of every function whose contract serves one of the properties
	gen := w.generate(props)
	exit := 0
	if *rebase {
		w.rebaseline(gen, &reg, props, *verif, timeout)
		return
	}
	for _, p := range props {
		code := w.checkProperty(p, *tier, seed, gen, &reg, &kf, *verif, timeout, t0)
		if code > exit {
			exit = code
		}
	}
	os.Exit(exit)
}

type generated struct {
	vcs       []*VC
	byFn      map[string]*VC
	lemmas    []*Oblig
	genErrs   []string
	sweepErrs []string
}

// servesProp reports whether a contract mentions the property.
func servesProp(c *Contract, props []string) bool {
	all := append([]string{}, c.Tags...)
	for _, cl := range c.Requires {
		all = append(all, cl.Tags...)
	}
	for _, cl := range c.Ensures {
		all = append(all, cl.Tags...)
	}
	for _, cl := range c.Invs {
		all = append(all, cl.Tags...)
	}
	for _, cl := range c.Decs {
		all = append(all, cl.Tags...)
	}
	for _, cl := range c.CallInvs {
		all = append(all, cl.Tags...)
	}
	for _, cl := range c.Panics {
		all = append(all, cl.Tags...)
	}
	if c.Decrease != nil {
		all = append(all, c.Decrease.Tags...)
	}
	if ft, ok := c.Opts["frametags"]; ok {
		all = append(all, strings.FieldsFunc(ft, func(r rune) bool { return r == ',' || r == ' ' })...)
	}
	for _, p := range props {
		if serves(all, p) {
			return true
		}
		if p == "C20" {
			return true // every function under contract contributes safety obligations
		}
	}
	return false
}

func (w *World) generate(props []string) *generated {
	g := &generated{byFn: map[string]*VC{}}
	var keys []string
	for k, c := range w.contracts {
		if c.Extern || c.Trusted {
			continue
		}
		if !servesProp(c, props) {
			continue
		}
		keys = append(keys, k)
	}
	sort.Strings(keys)
	for _, k := range keys {
		fn := w.fnIndex[k]
		if fn == nil {
			g.genErrs = append(g.genErrs, fmt.Sprintf("contract for %s: no such function in the current tree (contract unbound)", k))
			continue
		}
		vc := w.verifyFunction(fn, w.contracts[k])
		if vc.failed != nil {
			g.genErrs = append(g.genErrs, vc.failed.Error())
			continue
		}
		g.vcs = append(g.vcs, vc)
		g.byFn[k] = vc
	}
	// C20: zero-annotation safety sweep over the functions without contract
	if hasTag(props, "C20") {
		var sweep []string
		for k, fn := range w.fnIndex {
			// (a function whose contract is only trusted is still swept: its body is code like any other)
			if fn.Blocks == nil || g.byFn[k] != nil || (w.contracts[k] != nil && !w.contracts[k].Trusted) {
				continue
			}
			if !sweepScope(k) || fn.Synthetic != "" || strings.Contains(k, ".init") {
				continue
			}
			sweep = append(sweep, k)
		}
		sort.Strings(sweep)
		for _, k := range sweep {
			vc := w.verifyFunction(w.fnIndex[k], nil)
			if vc.failed != nil {
				g.sweepErrs = append(g.sweepErrs, vc.failed.Error())
				continue
			}
			g.vcs = append(g.vcs, vc)
			g.byFn[k] = vc
		}
	}
	g.lemmas = w.lemmaObligations()
	return g
}

// sweepScope: the packages covered by the zero-annotation safety sweep.
func sweepScope(key string) bool {
	return strings.HasPrefix(key, "bsonkit.") || strings.HasPrefix(key, "mongokit.") || strings.HasPrefix(key, "dbkit.") || strings.HasPrefix(key, "lungo.")
}

func (w *World) obligationsFor(p string, g *generated) []*Oblig {
	var out []*Oblig
	for _, vc := range g.vcs {
		for _, o := range vc.obligs {
			if o.Cover {
				if vc.con == nil {
					continue
				}
				// the cover of a function counts for the properties its contract serves
				if servesProp(vc.con, []string{p}) && p != "C20" || p == "C20" && hasTag(vc.con.Tags, "C20") {
					out = append(out, o)
				}
				continue
			}
			if serves(o.Tags, p) {
				out = append(out, o)
			}
		}
	}
	for _, o := range g.lemmas {
		if serves(o.Tags, p) {
			out = append(out, o)
		}
	}
	return out
}

func (w *World) rebaseline(g *generated, reg *Registry, props []string, verif string, timeout int) {
	outDir := filepath.Join(verif, "out", "rebaseline")
	seen := map[string]*Oblig{}
	var obs []*Oblig
	for _, p := range props {
		for _, o := range w.obligationsFor(p, g) {
			if seen[o.Name] == nil {
				seen[o.Name] = o
				obs = append(obs, o)
			}
		}
	}
	for _, e := range g.genErrs {
		fmt.Println("GENERATION-ERROR:", e)
	}
	// two independent runs; an obligation is registered only if both discharge it quickly
	limit := float64(timeout) / 5
	good := map[string]*RegEntry{}
	for run := 0; run < 2; run++ {
		// nothing slower than the registration limit is registered: no need to wait longer;
		// the second run only re-checks what the first run discharged
		todo := obs
		if run == 1 {
			todo = nil
			for _, o := range obs {
				if good[o.Name] != nil {
					todo = append(todo, o)
				}
			}
		}
		res := runAll(todo, outDir, int(limit)+1, 16, nil, false)
		for _, r := range res {
			if r.o.Cover {
				continue
			}
			if r.v.Status == "unsat" && r.v.Seconds <= limit {
				if run == 0 {
					good[r.o.Name] = &RegEntry{Kind: r.o.Kind, Solver: r.v.Solver, Secs: r.v.Seconds}
				} else if e := good[r.o.Name]; e != nil && r.v.Seconds > e.Secs {
					e.Secs = r.v.Seconds
				}
			} else {
				if run == 1 && good[r.o.Name] != nil {
					fmt.Printf("unstable (not registered): %s\n", r.o.Name)
				}
				delete(good, r.o.Name)
				if reg.Unproved == nil {
					reg.Unproved = map[string]string{}
				}
				reg.Unproved[r.o.Name] = r.v.Status
				if run == 0 {
					fmt.Printf("not registered: %-8s %5.1fs %s\n", r.v.Status, r.v.Seconds, r.o.Name)
				}
			}
		}
	}
	for name := range good {
		delete(reg.Unproved, name)
	}
	// replace the entries of the rebaselined properties, keep the others
	for name, e := range reg.Obligations {
		keep := false
		for _, p := range e.Props {
			if !hasTag(props, p) {
				keep = true
			}
		}
		if !keep {
			delete(reg.Obligations, name)
		}
	}
	for name, e := range good {
		o := seen[name]
		var ps []string
		for _, p := range props {
			if hasTag(o.Tags, p) {
				ps = append(ps, p)
			}
		}
		if old := reg.Obligations[name]; old != nil {
			ps = mergeTags(old.Props, ps)
		}
		e.Props = ps
		e.Secs = float64(int(e.Secs*100)) / 100
		reg.Obligations[name] = e
	}
	reg.Note = "obligations that discharge on the pinned tree (two runs, each within one fifth of the quick timeout); regenerated only by ./check --rebaseline"
	data, _ := json.MarshalIndent(reg, "", " ")
	os.WriteFile(filepath.Join(verif, "registry.json"), data, 0o644)
	fmt.Printf("registry: %d obligations\n", len(reg.Obligations))
}

var propRe = regexp.MustCompile(`^C[0-9]{2}$`)

func (w *World) checkProperty(p, tier string, seed int, g *generated, reg *Registry, kf *KnownFile, verif string, timeout int, t0 time.Time) int {
	outDir := filepath.Join(verif, "out", p)
	os.RemoveAll(outDir)
	os.MkdirAll(outDir, 0o755)
	replayDir := filepath.Join(verif, "replays")
	os.MkdirAll(replayDir, 0o755)
	obs := w.obligationsFor(p, g)
	// a known finding names the obligations it explains exactly, or by regular
	// expressions over obligation names (families such as "every decimal arm of Add")
	knownFor := func(name string) *KnownFinding {
		for _, k := range kf.Findings {
			if k.Status != "known" {
				continue
			}
			for _, n := range k.Obligations {
				if n == name {
					return k
				}
			}
			for _, pat := range k.Patterns {
				if re, err := regexp.Compile(pat); err == nil && re.MatchString(name) {
					return k
				}
			}
		}
		return nil
	}
	// unregistered obligations only get the short first stage; the race with the
	// full timeout is spent on registered obligations and known findings
	// quick tier: obligations that did not discharge on the pinned tree either (registry
	// "unproved") are not tried again, unless a known finding has to be re-confirmed on them
	var run, skipped []*Oblig
	for _, o := range obs {
		_, isReg := reg.Obligations[o.Name]
		if _, un := reg.Unproved[o.Name]; un && !isReg && tier == "quick" && knownFor(o.Name) == nil && !o.Cover {
			skipped = append(skipped, o)
			continue
		}
		run = append(run, o)
	}
	res := runAllSel(run, outDir, timeout, 16, func(o *Oblig) bool {
		_, isReg := reg.Obligations[o.Name]
		// (obligations explained by a known finding are expected to fail: the short first stage is enough)
		return isReg || o.Kind == "lemma"
	})
	for _, o := range skipped {
		res = append(res, result{o, Verdict{Status: "not-tried(" + reg.Unproved[o.Name] + " on the pinned tree)"}})
	}

	byName := map[string]*checkOutcome{}
	var outcomes []*checkOutcome
	groupNow := map[string][]*checkOutcome{}
	familyNow := map[string][]*checkOutcome{}
	for _, r := range res {
		oc := &checkOutcome{o: r.o, v: r.v}
		oc.ok = r.v.Status == "unsat"
		if r.o.Cover {
			oc.ok = r.v.Status == "sat" || r.v.Status == "unknown" || r.v.Status == "timeout"
		}
		_, oc.reg = reg.Obligations[r.o.Name]
		byName[r.o.Name] = oc
		outcomes = append(outcomes, oc)
		groupNow[group(r.o)] = append(groupNow[group(r.o)], oc)
		if !r.o.Cover {
			familyNow[familyOf(r.o.Name, r.o.Kind)] = append(familyNow[familyOf(r.o.Name, r.o.Kind)], oc)
		}
	}
	// successors of a registered obligation whose exact name is not generated any more:
	// the unregistered obligations of its group, or failing that of its family
	successors := func(name string, e *RegEntry) (members, fresh []*checkOutcome) {
		members = groupNow[groupOf(name, e.Kind)]
		if len(members) == 0 && contractDerived(e.Kind) {
			members = familyNow[familyOf(name, e.Kind)]
		}
		for _, m := range members {
			if !m.reg {
				fresh = append(fresh, m)
			}
		}
		return
	}
	// registered obligations that failed: retry once with all back ends and a longer timeout.
	// The successors of a vanished registered name stand in for it, so they get the same
	// treatment (as unregistered obligations they only had the short first stage so far).
	var retry []*Oblig
	inRetry := map[string]bool{}
	for _, oc := range outcomes {
		if oc.reg && !oc.ok && !oc.o.Cover {
			retry = append(retry, oc.o)
			inRetry[oc.o.Name] = true
		}
	}
	for name, e := range reg.Obligations {
		if !serves(e.Props, p) || byName[name] != nil || !contractDerived(e.Kind) {
			continue
		}
		_, fresh := successors(name, e)
		for _, m := range fresh {
			if !m.ok && !m.o.Cover && !inRetry[m.o.Name] {
				retry = append(retry, m.o)
				inRetry[m.o.Name] = true
			}
		}
	}
	// new obligations of a claimed clause (see the group rule below) get the long retry too
	// before they can be reported
	{
		claimed := map[string]bool{}
		for name, e := range reg.Obligations {
			if contractDerived(e.Kind) && serves(e.Props, p) {
				claimed[groupOf(name, e.Kind)] = true
			}
		}
		for _, oc := range outcomes {
			if oc.reg || oc.ok || oc.o.Cover || inRetry[oc.o.Name] || !contractDerived(oc.o.Kind) {
				continue
			}
			if _, recorded := reg.Unproved[oc.o.Name]; !recorded && claimed[group(oc.o)] {
				retry = append(retry, oc.o)
				inRetry[oc.o.Name] = true
			}
		}
	}
	sort.Slice(retry, func(i, j int) bool { return retry[i].Name < retry[j].Name })
	if len(retry) > 0 {
		// in batches: once eight obligations have failed the long retry as well, the tree
		// is in violation whatever the rest would say, and the remaining ones keep their
		// first verdict (a full race with the normal timeout) instead of costing
		// another 4x timeout each
		confirmed := 0
		for start := 0; start < len(retry); start += 8 {
			end := start + 8
			if end > len(retry) {
				end = len(retry)
			}
			if confirmed >= 8 && tier != "thorough" {
				break
			}
			// quick tier: 3x the normal timeout (every registered obligation discharged in under a
			// fifth of the normal timeout when it was registered); thorough: its own, longer one
			retryT := timeout * 3
			if tier == "thorough" {
				retryT = timeout * 2
			}
			rr := runAll(retry[start:end], outDir, retryT, 2, []string{"z3-new", "z3", "cvc5", "cvc5-enum", "z3-new-s2", "z3-new-s5", "z3-s3"}, false)
			for _, r := range rr {
				oc := byName[r.o.Name]
				if r.v.Status == "unsat" {
					oc.v = r.v
					oc.ok = true
				} else {
					confirmed++
					if r.v.Status == "sat" {
						oc.v = r.v
					}
				}
			}
		}
	}
	// thorough: every discharged registered obligation is given to all three back ends
	// (no race). A back end that answers sat where another answers unsat means the
	// solvers, which are part of the trusted base, cannot be believed on that goal:
	// the check reports itself broken instead of picking an answer. Timeouts and
	// unknown are not disagreement.
	crossN, crossMulti := 0, 0
	crossSingle, crossDisagree := []string{}, []string{}
	if tier == "thorough" {
		var cross []*Oblig
		for _, oc := range outcomes {
			if oc.reg && oc.ok && !oc.o.Cover {
				cross = append(cross, oc.o)
			}
		}
		cr := runAllEsc(cross, filepath.Join(outDir, "cross"), 20, 6, nil, true, nil)
		for _, r := range cr {
			crossN++
			nUnsat, nSat := 0, 0
			for _, st := range r.v.All {
				switch st {
				case "unsat":
					nUnsat++
				case "sat":
					nSat++
				}
			}
			switch {
			case nSat > 0 && (nUnsat > 0 || byName[r.o.Name].v.Status == "unsat"):
				crossDisagree = append(crossDisagree, fmt.Sprintf("%s %v", r.o.Name, r.v.All))
			case nUnsat >= 2:
				crossMulti++
			default:
				crossSingle = append(crossSingle, fmt.Sprintf("%s %v", r.o.Name, r.v.All))
			}
		}
		sort.Strings(crossSingle)
	}

	var violations, knownLines, undecided, renamed, retired, broken []string
	for _, d := range crossDisagree {
		broken = append(broken, "back ends disagree (sat vs unsat) on "+d)
	}
	nReg, nRegOK := 0, 0
	regNamesInProp := []string{}
	for name, e := range reg.Obligations {
		if serves(e.Props, p) {
			regNamesInProp = append(regNamesInProp, name)
		}
	}
	sort.Strings(regNamesInProp)
	reportViolation := func(oc *checkOutcome, name, reason string) {
		file := filepath.Join(replayDir, smtName(strings.ReplaceAll(name, "/", "__"))+".txt")
		suffix := " no-failing-input-found"
		body := fmt.Sprintf("obligation: %s\nproperty: %s\nreason: %s\n", name, p, reason)
		if oc != nil {
			body += fmt.Sprintf("position: %s\nclause: %s\nsolver verdicts: %v\nsmt file: %s\n%s\n", oc.o.Pos, oc.o.Desc, oc.v.All, oc.v.File, oc.v.Output)
			if oc.v.Status == "sat" {
				if rf, ok := w.replayCounterexample(oc, outDir, replayDir, &body); ok {
					file = rf
					suffix = ""
				}
			}
		}
		os.WriteFile(filepath.Join(replayDir, smtName(strings.ReplaceAll(name, "/", "__"))+".txt"), []byte(body), 0o644)
		violations = append(violations, fmt.Sprintf("VIOLATION property=%s replay=%s%s", p, file, suffix))
		fmt.Printf("  failed obligation: %s (%s)\n", name, reason)
	}
	for _, name := range regNamesInProp {
		nReg++
		oc := byName[name]
		e := reg.Obligations[name]
		if oc != nil {
			if oc.ok {
				nRegOK++
				oc.status = "discharged"
			} else {
				oc.status = "violation"
				reportViolation(oc, name, "registered obligation no longer discharged ("+oc.v.Status+")")
			}
			continue
		}
		// the name vanished. An obligation that belonged to an instruction (safe/*, pre@call,
		// frame) is retired with its instruction: the instructions that are there now have
		// their own obligations (registered ones are checked above, new ones under rule 2).
		if !contractDerived(e.Kind) {
			nRegOK++
			retired = append(retired, name)
			continue
		}
		// An obligation that stems from a contract clause: look at its group, then at its family
		members, fresh := successors(name, e)
		switch {
		case len(fresh) > 0:
			allOK := true
			for _, m := range fresh {
				if !m.ok {
					if knownFor(m.o.Name) != nil {
						continue
					}
					allOK = false
					m.status = "violation"
					reportViolation(m, m.o.Name, "successor of registered obligation "+name+" is not discharged ("+m.v.Status+")")
				}
			}
			if allOK {
				nRegOK++
				renamed = append(renamed, name)
			}
		case contractDerived(e.Kind) && len(members) == 0:
			reportViolation(nil, name, "contract unbound: the registered obligation has no counterpart in the current tree")
		default:
			nRegOK++
			retired = append(retired, name)
		}
	}
	// A contract clause is claimed for the whole function: when some obligations of a
	// clause (its group) are registered, an obligation of the same clause that is new
	// (a new return point, a new back edge) and does not discharge breaks the claim,
	// replayable or not. What did not discharge on the pinned tree either is on
	// record (Registry.Unproved); a renamed one of those must not raise an alarm, so
	// only the excess over the recorded number of undecided members counts.
	regInGroup, unprovedInGroup, failingInGroup := map[string]int{}, map[string]int{}, map[string]int{}
	for name, e := range reg.Obligations {
		if contractDerived(e.Kind) && serves(e.Props, p) {
			regInGroup[groupOf(name, e.Kind)]++
		}
	}
	for name := range reg.Unproved {
		if k := kindOfName(name); contractDerived(k) {
			unprovedInGroup[groupOf(name, k)]++
		}
	}
	for _, oc := range outcomes {
		if oc.status == "" && !oc.reg && !oc.o.Cover && !oc.ok && contractDerived(oc.o.Kind) && knownFor(oc.o.Name) == nil {
			failingInGroup[group(oc.o)]++
		}
	}
	// unregistered obligations
	for _, oc := range outcomes {
		if oc.status != "" || oc.reg {
			continue
		}
		if !oc.o.Cover && !oc.ok && contractDerived(oc.o.Kind) && knownFor(oc.o.Name) == nil {
			g := group(oc.o)
			if _, recorded := reg.Unproved[oc.o.Name]; !recorded && regInGroup[g] > 0 && failingInGroup[g] > unprovedInGroup[g] {
				oc.status = "violation"
				reportViolation(oc, oc.o.Name, "a new obligation of the claimed contract clause "+g+" is not discharged ("+oc.v.Status+")")
				continue
			}
		}
		if oc.o.Cover {
			if oc.v.Status == "unsat" {
				broken = append(broken, oc.o.Name+": unreachable under its preconditions (vacuous contract)")
			}
			continue
		}
		if oc.ok {
			oc.status = "proved-not-registered"
			continue
		}
		if k := knownFor(oc.o.Name); k != nil {
			oc.status = "known-finding"
			oc.kf = k
			continue
		}
		// a new failing obligation: a violation only if a counterexample replays on the real code
		if oc.v.Status == "sat" && strings.HasPrefix(oc.o.Kind, "safe/") {
			body := ""
			if rf, ok := w.replayCounterexample(oc, outDir, replayDir, &body); ok {
				oc.status = "violation"
				violations = append(violations, fmt.Sprintf("VIOLATION property=%s replay=%s", p, rf))
				continue
			}
		}
		oc.status = "undecided"
		undecided = append(undecided, fmt.Sprintf("%s (%s)", oc.o.Name, oc.v.Status))
	}
	// known findings: each listed finding of this property is reported once, after its replay
	kfReplayed := 0
	for _, k := range kf.Findings {
		if (k.Property != p && !hasTag(k.Properties, p)) || k.Status != "known" {
			continue
		}
		stillFails := false
		var failing []*checkOutcome
		for _, oc := range outcomes {
			if !oc.ok && !oc.o.Cover && findingMatches(k, oc.o.Name) {
				stillFails = true
				failing = append(failing, oc)
			}
		}
		if len(k.Obligations) == 0 && len(k.Patterns) == 0 {
			stillFails = true // findings outside the reach of any obligation: decided by the replay alone
		}
		if !stillFails {
			// the obligations it explained are discharged now: nothing to report
			continue
		}
		replays := true
		if k.Replay != "" {
			replays = w.runKnownReplay(k, verif)
			if replays {
				kfReplayed++
			}
		}
		if replays {
			knownLines = append(knownLines, fmt.Sprintf("KNOWN-FINDING: property=%s %s: %s [witness: %s]", p, k.ID, k.What, k.Witness))
		} else {
			// the obligation fails but the recorded witness no longer reproduces: a different violation
			for _, oc := range failing {
				reportViolation(oc, oc.o.Name, "fails, and the recorded witness of "+k.ID+" no longer reproduces")
			}
		}
	}
	for _, e := range g.genErrs {
		// a contract that cannot be bound or translated any more
		if len(regNamesInProp) > 0 {
			fn := e
			relevant := false
			for _, n := range regNamesInProp {
				if strings.Contains(fn, strings.SplitN(n, "/", 2)[0]) {
					relevant = true
					break
				}
			}
			if relevant {
				broken = append(broken, "generation: "+e)
			}
		}
	}

	// evidence
	var samples []interface{}
	perSolver := map[string]int{}
	solverSecs := 0.0
	fnSet := map[string]bool{}
	trusted := map[string]bool{}
	var notes []string
	for _, oc := range outcomes {
		if oc.ok && !oc.o.Cover {
			perSolver[oc.v.Solver]++
		}
		solverSecs += oc.v.Seconds
		if oc.o.vc != nil {
			fnSet[oc.o.Func] = true
			for a := range oc.o.vc.assumed {
				if c := w.contracts[a]; c != nil && (c.Extern || c.Trusted) {
					trusted["assumed contract: "+a] = true
				}
			}
			for a := range oc.o.vc.assumed {
				ghostDefs(w.contracts[a], a, trusted)
			}
			ghostDefs(w.contracts[oc.o.Func], oc.o.Func, trusted)
			for name := range oc.o.vc.uses {
				if m := w.specs[name]; m != nil {
					n := 0
					for _, sf := range m.Forms {
						if sf.Axiom {
							n++
						}
					}
					if n > 0 {
						trusted[fmt.Sprintf("the %d axioms of spec module specs/%s.smt2 (properties of uninterpreted specification functions, assumed)", n, name)] = true
					}
				}
			}
		}
		if len(samples) < 6 && oc.ok && !oc.o.Cover {
			samples = append(samples, map[string]interface{}{"obligation": oc.o.Name, "kind": oc.o.Kind, "at": oc.o.Pos, "clause": oc.o.Desc, "verdict": oc.v.Status, "solver": oc.v.Solver, "seconds": round2(oc.v.Seconds), "smt_file": oc.v.File})
		}
	}
	for _, vc := range g.vcs {
		if fnSet[vc.fname] {
			notes = append(notes, vc.notes...)
		}
	}
	sort.Strings(notes)
	if len(notes) > 40 {
		notes = append(notes[:40], fmt.Sprintf("... %d more abstraction notes", len(notes)-40))
	}
	nCover, nCoverOK := 0, 0
	for _, oc := range outcomes {
		if oc.o.Cover {
			nCover++
			if oc.v.Status == "sat" {
				nCoverOK++
			}
		}
	}
	provedNotReg := 0
	for _, oc := range outcomes {
		if oc.status == "proved-not-registered" {
			provedNotReg++
		}
	}
	tb := []string{"the VC generator /verif/vc (go/ssa based) and the SMT solvers z3 4.8.12, z3 5.1.0, cvc5 1.0.3", "GOARCH=amd64: int is 64 bit; every slice length is at most 2^48",
		"value-layer slices (bson.D, bson.A, []byte) are modelled as immutable sequences; aliasing between them is not modelled"}
	tb = append(tb, sortedKeys(trusted)...)
	ev := map[string]interface{}{
		"property_id": p, "tier": tier, "seed": seed, "level": "proof",
		"coverage": map[string]interface{}{
			"obligations": nReg, "discharged": nRegOK,
			"checker_cmd":               fmt.Sprintf("./check %s %s", p, tier),
			"trusted_base":              tb,
			"functions_under_contract":  sortedKeys(fnSet),
			"obligations_generated":     len(outcomes),
			"proved_not_registered":     provedNotReg,
			"undecided_not_claimed":     undecided,
			"assumed_but_undecided":     assumedUndecided(w, reg, outcomes),
			"renamed_matched_by_group":  renamed,
			"retired":                   retired,
			"cover_checks":              nCover,
			"cover_reachable":           nCoverOK,
			"discharged_by_backend":     perSolver,
			"solver_seconds":            round2(solverSecs),
			"known_findings_reproduced": kfReplayed,
			"known_findings":            knownLines,
			"abstractions":              notes,
			"samples":                   samples,
			"explanation":               "every registered obligation generated from the current working tree was discharged (unsat) by an SMT solver; see DESIGN.md",
		},
		"assumptions": tb,
		"wall_s":      round2(time.Since(t0).Seconds()),
		"violations":  len(violations),
	}
	if len(samples) == 0 {
		ev["coverage"].(map[string]interface{})["samples"] = []interface{}{"(no obligation discharged)"}
	}
	if tier == "thorough" {
		cov := ev["coverage"].(map[string]interface{})
		cov["cross_checked_on_all_backends"] = crossN
		cov["cross_confirmed_by_two_or_more_backends"] = crossMulti
		cov["cross_single_backend_only"] = crossSingle
		cov["cross_backend_disagreements"] = crossDisagree
	}
	os.MkdirAll(filepath.Join(verif, "evidence"), 0o755)
	data, _ := json.MarshalIndent(ev, "", " ")
	os.WriteFile(filepath.Join(verif, "evidence", p+".json"), data, 0o644)

	fmt.Printf("%s %s: %d registered obligations, %d discharged; %d generated; %d proved but not registered; %d undecided (not claimed); %d known findings; %.1fs\n",
		p, tier, nReg, nRegOK, len(outcomes), provedNotReg, len(undecided), len(knownLines), time.Since(t0).Seconds())
	for _, l := range knownLines {
		fmt.Println(l)
	}
	if len(broken) > 0 {
		for _, b := range broken {
			fmt.Println("BROKEN-CHECK:", b)
		}
		return 2
	}
	if nReg == 0 {
		fmt.Println("BROKEN-CHECK: no registered obligation for", p)
		return 2
	}
	if len(violations) > 0 {
		seen := map[string]bool{}
		for _, v := range violations {
			if !seen[v] {
				fmt.Println(v)
				seen[v] = true
			}
		}
		return 1
	}
	return 0
}

func round2(f float64) float64 { return float64(int(f*100+0.5)) / 100 }

// ghostDefs records the clauses of a contract that define a ghost history variable
// (tag ghostdef): callers assume them, the body is not checked against them, because
// the variable is by definition what these clauses say (e.g. "a collection is tainted
// once a mutating method on it has failed").
func ghostDefs(c *Contract, key string, into map[string]bool) {
	if c == nil || c.Extern || c.Trusted {
		return
	}
	for _, e := range c.Ensures {
		if hasTag(e.Tags, "ghostdef") {
			into["ghost history definition (assumed by callers, not an obligation of the body): "+key+": "+e.Text] = true
		}
	}
}
