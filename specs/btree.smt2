; ---------------------------------------------------------------------------
; Abstract view of github.com/tidwall/btree as bsonkit.Index uses it (properties
; C07, C15): a tree is the set of the entries it holds (ghost.tree, declared in
; btree.contracts). The order of a tree is the less function it was built with;
; two entries are equivalent - the tree keeps at most one of them - when neither
; is less than the other. entryEqv(tree, a, b) is that relation, left
; uninterpreted except for being an equivalence (assumed: it is one exactly when
; less is a strict weak order, which for bsonkit.NewIndex's less follows from
; the BSON order being a total preorder, specs/order.smt2).
(declare-fun entryEqv (Int S_bsonkit_indexEntry S_bsonkit_indexEntry) Bool)
(assert (forall ((t Int) (a S_bsonkit_indexEntry)) (! (entryEqv t a a) :pattern ((entryEqv t a a)))))
(assert (forall ((t Int) (a S_bsonkit_indexEntry) (b S_bsonkit_indexEntry)) (! (= (entryEqv t a b) (entryEqv t b a)) :pattern ((entryEqv t a b)))))
(assert (forall ((t Int) (a S_bsonkit_indexEntry) (b S_bsonkit_indexEntry) (c S_bsonkit_indexEntry))
  (! (=> (and (entryEqv t a b) (entryEqv t b c)) (entryEqv t a c)) :pattern ((entryEqv t a b) (entryEqv t b c)))))
; keysEq(tree, k1, k2): the two key tuples compare equal in every column of the
; tree's index (BSON equality across numeric types). bsonkit.NewIndex's less
; orders by the columns and breaks ties by document identity, so two entries are
; equivalent exactly when their keys are equal in this sense and they belong to
; the same document (assumed, like the equivalence properties: it is what less
; being a strict weak order over the BSON total preorder amounts to).
(define-fun entryKeys ((e S_bsonkit_indexEntry)) Seq_Val (S_bsonkit_indexEntry.keys e))
(define-fun entryDoc ((e S_bsonkit_indexEntry)) Ref (S_bsonkit_indexEntry.doc e))
(declare-fun keysEq (Int Seq_Val Seq_Val) Bool)
; equality of key tuples does not depend on the tree (column directions only affect the order)
(assert (forall ((t Int) (a Seq_Val) (b Seq_Val)) (! (= (keysEq t a b) (keysEq 0 a b)) :pattern ((keysEq t a b)))))
(assert (forall ((t Int) (a Seq_Val)) (! (keysEq t a a) :pattern ((keysEq t a a)))))
(assert (forall ((t Int) (a Seq_Val) (b Seq_Val)) (! (= (keysEq t a b) (keysEq t b a)) :pattern ((keysEq t a b)))))
(assert (forall ((t Int) (a Seq_Val) (b Seq_Val) (c Seq_Val))
  (! (=> (and (keysEq t a b) (keysEq t b c)) (keysEq t a c)) :pattern ((keysEq t a b) (keysEq t b c)))))
(assert (forall ((t Int) (a S_bsonkit_indexEntry) (b S_bsonkit_indexEntry))
  (! (= (entryEqv t a b) (and (keysEq t (S_bsonkit_indexEntry.keys a) (S_bsonkit_indexEntry.keys b)) (= (S_bsonkit_indexEntry.doc a) (S_bsonkit_indexEntry.doc b))))
   :pattern ((entryEqv t a b)))))
