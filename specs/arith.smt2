;; needs: cmp
; ---------------------------------------------------------------------------
; Numeric update arithmetic (property C11): MongoDB's type-promotion table for
; $inc / $mul / $mod, written from the property text and the MongoDB manual:
;   int32 o int32 -> int32, promoted to int64 when the exact result leaves int32
;   any 64-bit integer involved -> int64 (an exact result outside int64 is an error)
;   a double involved (no decimal) -> double, IEEE-754 round-to-nearest-even on
;     the operands converted to double
;   a decimal128 involved -> decimal128 (external library: abstract exact field)
;   anything else -> Missing
; Nothing in this file is derived from the code.

(define-fun isNum ((v Val)) Bool (or ((_ is VI32) v) ((_ is VI64) v) ((_ is VF64) v) ((_ is VDec) v)))
(define-fun isIntV ((v Val)) Bool (or ((_ is VI32) v) ((_ is VI64) v)))
; exact value of an integer operand in 64 and in 128 bits
(define-fun intOf ((v Val)) (_ BitVec 64) (ite ((_ is VI32) v) ((_ sign_extend 32) (i32 v)) (i64 v)))
(define-fun wideOf ((v Val)) (_ BitVec 128) ((_ sign_extend 64) (intOf v)))
(define-fun fits32 ((x (_ BitVec 128))) Bool (and (bvsle ((_ sign_extend 96) #x80000000) x) (bvsle x ((_ sign_extend 96) #x7fffffff))))
(define-fun fits64 ((x (_ BitVec 128))) Bool (and (bvsle ((_ sign_extend 64) #x8000000000000000) x) (bvsle x ((_ sign_extend 64) #x7fffffffffffffff))))
; operand converted to double (int32 exactly, int64 rounded to nearest even)
(define-fun dblOf ((v Val)) F64
  (ite ((_ is VI32) v) ((_ to_fp 11 53) RNE (i32 v)) (ite ((_ is VI64) v) ((_ to_fp 11 53) RNE (i64 v)) (f64 v))))

; --- decimals (external): abstract field operations and the conversion back to decimal128
(declare-fun dec_add (Dec Dec) Dec)
(declare-fun dec_mul (Dec Dec) Dec)
(declare-fun dec_mod (Dec Dec) Dec)
(declare-fun dec_isZero (Dec) Bool)
(declare-fun dec_fits (Dec) Bool)                       ; representable as a decimal128
(declare-fun d128_ofDec (Dec) S_primitive_Decimal128)   ; the decimal128 of a representable decimal
(declare-fun d128_isZero (S_primitive_Decimal128) Bool) ; finite with coefficient zero
(assert (forall ((d S_primitive_Decimal128)) (! (=> (d128_isZero d) (= (d128_kind d) 0)) :pattern ((d128_isZero d)))))
; operand as a decimal (finite operands; doubles through the library's conversion)
(define-fun decOf ((v Val)) Dec
  (ite ((_ is VI32) v) (dec_ofI64 ((_ sign_extend 32) (i32 v)))
  (ite ((_ is VI64) v) (dec_ofI64 (i64 v))
  (ite ((_ is VF64) v) (dec_shortest (f64 v)) (dec_ofD128 (dec v))))))
(define-fun decArm ((a Val) (b Val)) Bool (and (isNum a) (isNum b) (or ((_ is VDec) a) ((_ is VDec) b))))
(define-fun dblArm ((a Val) (b Val)) Bool (and (isNum a) (isNum b) (not (decArm a b)) (or ((_ is VF64) a) ((_ is VF64) b))))
(define-fun intArm ((a Val) (b Val)) Bool (and (isIntV a) (isIntV b)))
(define-fun bothI32 ((a Val) (b Val)) Bool (and ((_ is VI32) a) ((_ is VI32) b)))
; every operand of a decimal arm is finite
(define-fun decFinite ((a Val) (b Val)) Bool (and (numFinite a) (numFinite b)))

; --- $inc
(define-fun addWide ((a Val) (b Val)) (_ BitVec 128) (bvadd (wideOf a) (wideOf b)))
(define-fun addOverflows ((a Val) (b Val)) Bool
  (and (intArm a b) (ite (bothI32 a b) (not (fits32 (addWide a b))) (not (fits64 (addWide a b))))))
(define-fun addNum ((a Val) (b Val)) Val
  (ite (intArm a b)
    (ite (bothI32 a b)
      (ite (fits32 (addWide a b)) (VI32 ((_ extract 31 0) (addWide a b))) (VI64 ((_ extract 63 0) (addWide a b))))
      (ite (fits64 (addWide a b)) (VI64 ((_ extract 63 0) (addWide a b))) VMissing))
  (ite (dblArm a b) (VF64 (fp.add RNE (dblOf a) (dblOf b)))
  (ite (decArm a b) (VDec (d128_ofDec (dec_add (decOf a) (decOf b))))
    VMissing))))

; --- $mul
(define-fun mulWide ((a Val) (b Val)) (_ BitVec 128) (bvmul (wideOf a) (wideOf b)))
(define-fun mulOverflows ((a Val) (b Val)) Bool
  (and (intArm a b) (ite (bothI32 a b) (not (fits32 (mulWide a b))) (not (fits64 (mulWide a b))))))
(define-fun mulNum ((a Val) (b Val)) Val
  (ite (intArm a b)
    (ite (bothI32 a b)
      (ite (fits32 (mulWide a b)) (VI32 ((_ extract 31 0) (mulWide a b))) (VI64 ((_ extract 63 0) (mulWide a b))))
      (ite (fits64 (mulWide a b)) (VI64 ((_ extract 63 0) (mulWide a b))) VMissing))
  (ite (dblArm a b) (VF64 (fp.mul RNE (dblOf a) (dblOf b)))
  (ite (decArm a b) (VDec (d128_ofDec (dec_mul (decOf a) (decOf b))))
    VMissing))))

; --- $mod: remainder with the sign of the dividend; a zero integer or decimal
; divisor yields Missing, a double divisor follows fmod (NaN for zero).
; Not decided here: a decimal dividend with a zero double divisor (modDecided).
(declare-fun fmod (F64 F64) F64)
(declare-fun big_sign (Int) Int)                        ; (*big.Int).Sign
(define-fun modDecided ((a Val) (b Val)) Bool
  (not (and (decArm a b) ((_ is VF64) b) (dec_isZero (dec_shortest (f64 b))))))
(define-fun zeroDivisor ((b Val)) Bool
  (or (and ((_ is VI32) b) (= (i32 b) #x00000000)) (and ((_ is VI64) b) (= (i64 b) #x0000000000000000))
      (and ((_ is VDec) b) (d128_isZero (dec b)))))
(define-fun modNum ((a Val) (b Val)) Val
  (ite (zeroDivisor b) VMissing
  (ite (intArm a b)
    (ite (bothI32 a b) (VI32 (bvsrem (i32 a) (i32 b))) (VI64 (bvsrem (intOf a) (intOf b))))
  (ite (dblArm a b) (VF64 (fmod (dblOf a) (dblOf b)))
  (ite (decArm a b)
    (VDec (d128_ofDec (ite (dec_isZero (decOf b)) dec_zero (dec_mod (decOf a) (decOf b)))))
    VMissing)))))
