package main

import (
	"go/ast"
	"go/parser"
	"go/token"
)

// ghostDefShape checks that a clause tagged ghostdef only says what a ghost
// variable is after the call: a conjunction of `ghost.x == e` and
// `imp(cond, ghost.x == e)`. Anything else would be an unchecked assumption about
// real state. It returns "" when the clause has that shape.
func ghostDefShape(text, pkg string) string {
	src := desugarImplies(expandMacros(text, pkg, parsedMacros))
	ex, err := parser.ParseExpr(src)
	if err != nil {
		return "does not parse: " + err.Error()
	}
	var conj func(e ast.Expr) string
	isGhostEq := func(e ast.Expr) bool {
		b, ok := e.(*ast.BinaryExpr)
		if !ok || b.Op != token.EQL {
			return false
		}
		sel, ok := b.X.(*ast.SelectorExpr)
		if !ok {
			return false
		}
		id, ok := sel.X.(*ast.Ident)
		return ok && id.Name == "ghost"
	}
	conj = func(e ast.Expr) string {
		switch n := e.(type) {
		case *ast.ParenExpr:
			return conj(n.X)
		case *ast.BinaryExpr:
			if n.Op == token.LAND {
				if m := conj(n.X); m != "" {
					return m
				}
				return conj(n.Y)
			}
			if isGhostEq(n) {
				return ""
			}
		case *ast.CallExpr:
			if id, ok := n.Fun.(*ast.Ident); ok && id.Name == "imp" && len(n.Args) == 2 {
				return conj(n.Args[1])
			}
		}
		return "a ghostdef clause may only consist of `ghost.x == e` and `imp(cond, ghost.x == e)` conjuncts"
	}
	return conj(ex)
}
