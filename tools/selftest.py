#!/usr/bin/env python3
"""Must-fail / must-pass corpus for the lungovc checks.

Each entry rewrites one exact piece of text in a scratch copy of /repo (never in
/repo itself), runs the registered check against that copy, and compares the
outcome with what is expected:

  fail  the change breaks the property while still compiling: the check must
        exit 1 and print a VIOLATION line for that property
  pass  the change is harmless (renamed local, reordered independent statements,
        extra dead statement): the check must exit 0 without a VIOLATION line

The scratch copy and the scratch verif directory (specs, registry and known
findings are symlinked, out/evidence/replays are private) live under a fresh
directory in /var/tmp and are removed on exit.

usage: tools/selftest.py [Cxx ...] [-k substring] [-j N]
"""
import os, re, shutil, subprocess, sys, tempfile, concurrent.futures as cf

VERIF = os.path.dirname(os.path.dirname(os.path.abspath(__file__)))
REPO = "/repo"
ENV = dict(os.environ, PATH="/opt/veriftools/go1.26.8/bin:" + os.environ["PATH"],
           GOFLAGS="-mod=mod", GOPROXY="off", GOSUMDB="off", GOTOOLCHAIN="local")

CMP = "bsonkit/compare.go"
INS = "bsonkit/inspect.go"

# (name, property, expectation, [(file, old, new, occurrence)])
CORPUS = [
    # ---- C12 must fail
    ("c12-arrays-prefix-greater", "C12", "fail", [(CMP, """		if i == len(l) {
			if i == len(r) {
				return 0
			}
			return -1
		} else if i == len(r) {
			return 1
		}

		// compare elements""", """		if i == len(l) {
			if i == len(r) {
				return 0
			}
			return 1
		} else if i == len(r) {
			return -1
		}

		// compare elements""", 1)]),
    ("c12-docs-skip-values", "C12", "fail", [(CMP, """		res = Compare(l[i].Value, r[i].Value)
		if res != 0 {
			return res
		}""", """		res = Compare(l[i].Value, r[i].Value)
		if res > 0 {
			return res
		}""", 1)]),
    ("c12-docs-keys-ignored", "C12", "fail", [(CMP, """		res := strings.Compare(l[i].Key, r[i].Key)
		if res != 0 {
			return res
		}""", """		res := strings.Compare(l[i].Key, r[i].Key)
		if res < 0 {
			return res
		}""", 1)]),
    ("c12-class-order-swapped", "C12", "fail", [(CMP, """	if lc > rc {
		return 1
	} else if lc < rc {
		return -1
	}""", """	if lc > rc {
		return 1
	} else if lc < rc && lc != Null {
		return -1
	}""", 1)]),
    ("c12-strings-reversed", "C12", "fail", [(CMP, "	res := strings.Compare(l, r)\n\n	return res",
                                               "	res := strings.Compare(r, l)\n\n	return res", 1)]),
    ("c12-binary-subtype-first", "C12", "fail", [(CMP, """	if len(l.Data) > len(r.Data) {
		return 1
	} else if len(l.Data) < len(r.Data) {
		return -1
	}""", """	if len(l.Data) > len(r.Data) && l.Subtype >= r.Subtype {
		return 1
	} else if len(l.Data) < len(r.Data) {
		return -1
	}""", 1)]),
    ("c12-bool-true-first", "C12", "fail", [(CMP, """	} else if l {
		return 1
	} else {
		return -1
	}""", """	} else if l {
		return -1
	} else {
		return 1
	}""", 1)]),
    ("c12-nan-not-lowest", "C12", "fail", [(CMP, """	if math.IsNaN(l) {
		if math.IsNaN(r) {
			return 0
		}
		return -1
	}""", """	if math.IsNaN(l) {
		if math.IsNaN(r) {
			return 0
		}
		return 1
	}""", 1)]),
    ("c12-int32-widened-wrong", "C12", "fail", [(CMP, "			return compareInt64s(int64(l), r)",
                                                  "			return compareInt64s(int64(uint32(l)), r)", 1)]),
    ("c12-int64-float-rounded", "C12", "fail", [(CMP, "			return compareInt64ToFloat64(l, r)",
                                                  "			return compareFloat64s(float64(l), r)", 1)]),
    ("c12-regex-options-ignored", "C12", "fail", [(CMP, "	ret = strings.Compare(l.Options, r.Options)\n\n	return ret",
                                                    "	ret = strings.Compare(l.Options, l.Options)\n\n	return ret", 1)]),
    # ---- C12 must pass (harmless edits)
    ("c12-ok-dead-statement-renumbers-registers", "C12", "pass", [(CMP, """	// compare array elements
	for i := 0; ; i++ {""", """	// compare array elements
	n := len(l) + len(r)
	_ = n
	for i := 0; ; i++ {""", 1)]),
    ("c12-ok-reordered-asserts", "C12", "pass", [(CMP, """	// get array
	l := lv.(bson.A)
	r := rv.(bson.A)""", """	// get array
	r := rv.(bson.A)
	l := lv.(bson.A)""", 1)]),
    ("c12-ok-extra-block-before-loop", "C12", "pass", [(CMP, """	// compare document elements
	for i := 0; ; i++ {""", """	// compare document elements
	if len(l) > len(r) {
		_ = l
	}
	for i := 0; ; i++ {""", 1)]),
    ("c12-ok-renamed-result-local", "C12", "pass", [(CMP, "	res := bytes.Compare(l.Data, r.Data)\n\n	return res",
                                                      "	out := bytes.Compare(l.Data, r.Data)\n\n	return out", 1)]),
    ("c12-ok-early-return-hoisted", "C12", "pass", [(CMP, """	// compare sub type
	if l.Subtype > r.Subtype {
		return 1
	} else if l.Subtype < r.Subtype {
		return -1
	}""", """	// compare sub type
	if l.Subtype < r.Subtype {
		return -1
	}
	if l.Subtype > r.Subtype {
		return 1
	}""", 1)]),
    ("c12-ok-renamed-loop-counter", "C12", "pass", [(CMP, "compareArrays", {"i": "k"}, "rename")]),
    ("c12-ok-renamed-operands-and-counter", "C12", "pass", [(CMP, "compareDocuments", {"l": "a", "r": "b", "i": "n", "res": "c"}, "rename")]),
    ("c12-renamed-counter-and-prefix-greater", "C12", "fail", [(CMP, "compareArrays", {"i": "k"}, "rename"), (CMP, """			if k == len(r) {
				return 0
			}
			return -1""", """			if k == len(r) {
				return 0
			}
			return 1""", 1)]),
    ("c12-ok-equivalent-condition", "C12", "pass", [(CMP, """	if lc > rc {
		return 1
	} else if lc < rc {
		return -1
	}""", """	if rc < lc {
		return 1
	} else if rc > lc {
		return -1
	}""", 1)]),
    # ---- harmless edits of functions that came under contract last (must stay quiet)
    ("c08-ok-delete-helper-temp-variable", "C08", "pass", [("transaction.go", """	// append oplog
	for _, doc := range res.Matched {
		err = t.append(oplog, handle, "delete", doc, nil)
		if err != nil {
			return nil, err
		}
	}
""", """	// append oplog
	matched := res.Matched
	for _, doc := range matched {
		if err = t.append(oplog, handle, "delete", doc, nil); err != nil {
			return nil, err
		}
	}
""", 1)]),
    ("c10-ok-or-restructured", "C10", "pass", [("mongokit/match.go", """		err := Process(ctx, doc, query, "", true)
		if err == ErrNotMatched {
			continue
		} else if err != nil {
			return err
		}

		return nil
	}

	return ErrNotMatched
}

func matchNor""", """		err := Process(ctx, doc, query, "", true)
		if err == nil {
			return nil
		}
		if err != ErrNotMatched {
			return err
		}
	}

	return ErrNotMatched
}

func matchNor""", 1)]),
    ("c08-ok-drop-local-renamed", "C08", "pass", [("transaction.go", "(t *Transaction) Drop", {"dropped": "count"}, "rename")]),
    ("c11-ok-push-local-renamed", "C11", "pass", [("mongokit/apply.go", "applyPush", {"newArr": "out"}, "rename")]),
    ("c13-ok-collect-local-renamed", "C13", "pass", [("bsonkit/lists.go", "Collect", {"prevValue": "last"}, "rename")]),
    # ---- and property-breaking ones (must fail)
    ("c10-or-stops-at-first-mismatch", "C10", "fail", [("mongokit/match.go", """		err := Process(ctx, doc, query, "", true)
		if err == ErrNotMatched {
			continue
		} else if err != nil {
			return err
		}

		return nil
	}

	return ErrNotMatched
}

func matchNor""", """		err := Process(ctx, doc, query, "", true)
		if err == ErrNotMatched {
			break
		} else if err != nil {
			return err
		}

		return nil
	}

	return ErrNotMatched
}

func matchNor""", 1)]),
    ("c11-push-values-before-prefix", "C11", "fail", [("mongokit/apply.go", """	newArr = append(newArr, arr[:insertAt]...)
	newArr = append(newArr, values...)
""", """	newArr = append(newArr, values...)
	newArr = append(newArr, arr[:insertAt]...)
""", 1)]),
    ("c01-find-skip-limit-swapped", "C01", "fail", [("transaction.go", "res, err := t.catalog.Namespaces[handle].Find(query, sort, skip, limit)", "res, err := t.catalog.Namespaces[handle].Find(query, sort, limit, skip)", 1)]),
]


def run_one(entry, root):
    name, prop, expect, edits = entry
    d = os.path.join(root, name)
    repo = os.path.join(d, "repo")
    verif = os.path.join(d, "verif")
    os.makedirs(verif)
    # the snapshot of /repo and of the specs / registry taken when the run started
    # (so that work can go on in /repo and /verif while a corpus run is in progress)
    subprocess.run(["rsync", "-a", os.path.join(root, "base-repo") + "/", repo + "/"], check=True)
    for s in ("specs", "registry.json", "known_findings.json", "known"):
        os.symlink(os.path.join(root, "base-verif", s), os.path.join(verif, s))
    if isinstance(edits, str):
        # a seeded change kept under /verif/seeded/<id>/patch.diff
        a = subprocess.run(["patch", "-p1", "-s", "-i", edits], cwd=repo, capture_output=True, text=True)
        if a.returncode != 0:
            shutil.rmtree(d, ignore_errors=True)
            return name, prop, expect, "stale", "patch does not apply: " + a.stdout[-200:]
        edits = []
    for file, old, new, occ in edits:
        p = os.path.join(repo, file)
        src = open(p).read()
        if occ == "rename":
            # old: function name, new: {local: new name}; rewrites whole words inside that function only
            a = src.find("\nfunc " + old + "(")
            b = src.find("\nfunc ", a + 1)
            b = len(src) if b < 0 else b
            if a < 0:
                shutil.rmtree(d, ignore_errors=True)
                return name, prop, expect, "stale", "function not found: " + old
            body = src[a:b]
            for k, v in new.items():
                body = re.sub(r"(?<![\w.])" + k + r"\b", v, body)
            open(p, "w").write(src[:a] + body + src[b:])
            continue
        if src.count(old) < occ:
            shutil.rmtree(d, ignore_errors=True)
            return name, prop, expect, "stale", "text to rewrite not found in " + file
        parts = src.split(old)
        src = old.join(parts[:occ]) + new + old.join(parts[occ:])
        open(p, "w").write(src)
    b = subprocess.run(["go", "build", "./..."], cwd=repo, env=ENV, capture_output=True, text=True)
    if b.returncode != 0:
        shutil.rmtree(d, ignore_errors=True)
        return name, prop, expect, "stale", "mutant does not compile: " + b.stderr[-300:]
    r = subprocess.run([os.path.join(root, "lungovc"), "check", "-prop", prop, "-tier", "quick",
                        "-repo", repo, "-verif", verif], env=ENV, capture_output=True, text=True)
    out = r.stdout + r.stderr
    viol = [l for l in out.splitlines() if l.startswith("VIOLATION property=" + prop)]
    if r.returncode == 1 and viol:
        got = "fail"
    elif r.returncode == 0 and not viol:
        got = "pass"
    else:
        got = "exit%d" % r.returncode
    replayed = sum(1 for l in viol if not l.endswith("no-failing-input-found"))
    detail = "%d VIOLATION lines, %d with a replayed input" % (len(viol), replayed)
    if got != expect:
        detail += "\n" + "\n".join(out.splitlines()[-12:])
    shutil.rmtree(d, ignore_errors=True)
    return name, prop, expect, got, detail


def main():
    args = sys.argv[1:]
    jobs, sub, props = 2, None, []
    while args:
        a = args.pop(0)
        if a == "-j":
            jobs = int(args.pop(0))
        elif a == "-k":
            sub = args.pop(0)
        else:
            props.append(a)
    corpus = list(CORPUS)
    sd = os.path.join(VERIF, "seeded")
    for sid in sorted(os.listdir(sd)) if os.path.isdir(sd) else []:
        pf = os.path.join(sd, sid, "patch.diff")
        if os.path.exists(pf):
            corpus.append(("seed-" + sid, sid.split("-")[0], "fail", pf))
    todo = [e for e in corpus if (not props or e[1] in props) and (not sub or sub in e[0])]
    root = tempfile.mkdtemp(prefix="lungovc-selftest.", dir="/var/tmp")
    # a private copy of the checker, so that the engine can be rebuilt while a corpus run is in progress
    shutil.copy2(os.path.join(VERIF, "bin", "lungovc"), os.path.join(root, "lungovc"))
    subprocess.run(["rsync", "-a", "--exclude", ".git", REPO + "/", os.path.join(root, "base-repo") + "/"], check=True)
    os.makedirs(os.path.join(root, "base-verif"))
    for s in ("specs", "registry.json", "known_findings.json", "known"):
        subprocess.run(["cp", "-a", os.path.join(VERIF, s), os.path.join(root, "base-verif", s)], check=True)
    bad = 0
    try:
        with cf.ThreadPoolExecutor(max_workers=jobs) as ex:
            for name, prop, expect, got, detail in ex.map(lambda e: run_one(e, root), todo):
                ok = got == expect
                bad += not ok
                print("%-4s %-48s expected %-4s got %-6s %s" % ("ok" if ok else "BAD", name, expect, got, detail), flush=True)
    finally:
        shutil.rmtree(root, ignore_errors=True)
    print("selftest: %d entries, %d wrong" % (len(todo), bad))
    sys.exit(1 if bad else 0)


if __name__ == "__main__":
    main()
