;; needs: num val base
; ---------------------------------------------------------------------------
; The intended BSON order (property C12), written from the property text:
; class rank first (null < numbers < strings < documents < arrays < binary <
; ObjectId < bool < date < timestamp < regex); numbers by exact mathematical
; value with NaN lowest; strings/bytes by the assumed total orders strcmp /
; bytescmp; documents and arrays lexicographically, a proper prefix is smaller.
; This file is the specification; nothing in it is derived from the code.

; (class, btype, wf1 and the declaration of cmp are in base.smt2)

; --- assumed total orders of the standard library (strings.Compare, bytes.Compare)
(declare-fun strcmp (Str Str) Int)
(declare-fun bytescmp (Seq_u8 Seq_u8) Int)
(assert (forall ((a Str) (b Str)) (! (and (<= (- 1) (strcmp a b)) (<= (strcmp a b) 1)
   (= (= (strcmp a b) 0) (= a b)) (= (strcmp b a) (- (strcmp a b)))) :pattern ((strcmp a b)))))
(assert (forall ((a Seq_u8) (b Seq_u8)) (! (and (<= (- 1) (bytescmp a b)) (<= (bytescmp a b) 1)
   (= (bytescmp b a) (- (bytescmp a b))) (= (bytescmp a a) 0)) :pattern ((bytescmp a b)))))

; --- light, same-representation orders
(define-fun cmpI64 ((a (_ BitVec 64)) (b (_ BitVec 64))) Int (ite (= a b) 0 (ite (bvsgt a b) 1 (- 1))))
(define-fun cmpI32 ((a (_ BitVec 32)) (b (_ BitVec 32))) Int (ite (= a b) 0 (ite (bvsgt a b) 1 (- 1))))
(define-fun cmpU32 ((a (_ BitVec 32)) (b (_ BitVec 32))) Int (ite (= a b) 0 (ite (bvugt a b) 1 (- 1))))
(define-fun cmpF64 ((a F64) (b F64)) Int
  (ite (fp.isNaN a) (ite (fp.isNaN b) 0 (- 1)) (ite (fp.isNaN b) 1 (ite (fp.eq a b) 0 (ite (fp.gt a b) 1 (- 1))))))
(define-fun i32to64 ((a (_ BitVec 32))) (_ BitVec 64) ((_ sign_extend 32) a))
(define-fun i32toF ((a (_ BitVec 32))) F64 ((_ to_fp 11 53) RNE a))

; --- decimals: abstract exact values (shopspring/decimal, primitive.Decimal128 are external)
(declare-fun dec_cmp (Dec Dec) Int)                       ; sign of the exact order
(declare-fun dec_ofI64 ((_ BitVec 64)) Dec)               ; exact
(declare-fun dec_ofF64 (F64) Dec)                         ; exact value of a finite double
(declare-fun dec_ofD128 (S_primitive_Decimal128) Dec)     ; exact value of a finite decimal128
(declare-fun dec_shortest (F64) Dec)                      ; what decimal.NewFromFloat returns: NOT assumed exact
(define-fun dec_zero () Dec dec.zero)
(declare-fun d128_kind (S_primitive_Decimal128) Int)      ; 0 finite, 1 NaN, 2 +Inf, 3 -Inf
(define-fun f64_kind ((x F64)) Int (ite (fp.isNaN x) 1 (ite (fp.isInfinite x) (ite (fp.isPositive x) 2 3) 0)))
; order of the kinds when at least one side is not finite: NaN lowest, then -Inf, finite, +Inf
(define-fun kindRank ((k Int)) Int (ite (= k 1) 0 (ite (= k 3) 1 (ite (= k 0) 2 3))))
(define-fun cmpKinds ((ka Int) (kb Int)) Int
  (ite (= (kindRank ka) (kindRank kb)) 0 (ite (< (kindRank ka) (kindRank kb)) (- 1) 1)))
(define-fun cmpDecVals ((ka Int) (a Dec) (kb Int) (b Dec)) Int
  (ite (and (= ka 0) (= kb 0)) (dec_cmp a b) (cmpKinds ka kb)))

; --- numbers: exact value, NaN lowest.
; Same-representation pairs are compared directly (cmpI64 / cmpF64); that these
; agree with the order of the exact binary128 embeddings is lemma_num_embed.smt2.
; int32 converts exactly to int64 and to float64.
(define-fun cmpNum ((a Val) (b Val)) Int
  (ite ((_ is VF64) a)
    (ite ((_ is VF64) b) (cmpF64 (f64 a) (f64 b))
    (ite ((_ is VI32) b) (cmpF64 (f64 a) (i32toF (i32 b)))
    (ite ((_ is VI64) b) (cmpQ (q_ofF64 (f64 a)) (q_ofI64 (i64 b)))
      (cmpDecVals (f64_kind (f64 a)) (dec_ofF64 (f64 a)) (d128_kind (dec b)) (dec_ofD128 (dec b))))))
  (ite ((_ is VI32) a)
    (ite ((_ is VF64) b) (cmpF64 (i32toF (i32 a)) (f64 b))
    (ite ((_ is VI32) b) (cmpI32 (i32 a) (i32 b))
    (ite ((_ is VI64) b) (cmpI64 (i32to64 (i32 a)) (i64 b))
      (cmpDecVals 0 (dec_ofI64 (i32to64 (i32 a))) (d128_kind (dec b)) (dec_ofD128 (dec b))))))
  (ite ((_ is VI64) a)
    (ite ((_ is VF64) b) (cmpQ (q_ofI64 (i64 a)) (q_ofF64 (f64 b)))
    (ite ((_ is VI32) b) (cmpI64 (i64 a) (i32to64 (i32 b)))
    (ite ((_ is VI64) b) (cmpI64 (i64 a) (i64 b))
      (cmpDecVals 0 (dec_ofI64 (i64 a)) (d128_kind (dec b)) (dec_ofD128 (dec b))))))
  ; a is a decimal128
    (ite ((_ is VF64) b) (cmpDecVals (d128_kind (dec a)) (dec_ofD128 (dec a)) (f64_kind (f64 b)) (dec_ofF64 (f64 b)))
    (ite ((_ is VI32) b) (cmpDecVals (d128_kind (dec a)) (dec_ofD128 (dec a)) 0 (dec_ofI64 (i32to64 (i32 b))))
    (ite ((_ is VI64) b) (cmpDecVals (d128_kind (dec a)) (dec_ofD128 (dec a)) 0 (dec_ofI64 (i64 b)))
      (cmpDecVals (d128_kind (dec a)) (dec_ofD128 (dec a)) (d128_kind (dec b)) (dec_ofD128 (dec b))))))))))

(define-fun numFinite ((v Val)) Bool
  (ite ((_ is VF64) v) (= (f64_kind (f64 v)) 0) (ite ((_ is VDec) v) (= (d128_kind (dec v)) 0) true)))
(define-fun floatDecPair ((a Val) (b Val)) Bool
  (or (and ((_ is VF64) a) ((_ is VDec) b)) (and ((_ is VDec) a) ((_ is VF64) b))))

; --- binary: length, then subtype, then bytes
(define-fun cmpBin ((a S_primitive_Binary) (b S_primitive_Binary)) Int
  (ite (> (len.Seq_u8 (S_primitive_Binary.Data a)) (len.Seq_u8 (S_primitive_Binary.Data b))) 1
  (ite (< (len.Seq_u8 (S_primitive_Binary.Data a)) (len.Seq_u8 (S_primitive_Binary.Data b))) (- 1)
  (ite (bvugt (S_primitive_Binary.Subtype a) (S_primitive_Binary.Subtype b)) 1
  (ite (bvult (S_primitive_Binary.Subtype a) (S_primitive_Binary.Subtype b)) (- 1)
  (bytescmp (S_primitive_Binary.Data a) (S_primitive_Binary.Data b)))))))
(define-fun cmpOid ((a (Array Int (_ BitVec 8))) (b (Array Int (_ BitVec 8)))) Int
  (bytescmp (arr.seq.u8 a 12) (arr.seq.u8 b 12)))
(define-fun cmpTs ((a S_primitive_Timestamp) (b S_primitive_Timestamp)) Int
  (ite (not (= (S_primitive_Timestamp.T a) (S_primitive_Timestamp.T b)))
       (cmpU32 (S_primitive_Timestamp.T a) (S_primitive_Timestamp.T b))
       (cmpU32 (S_primitive_Timestamp.I a) (S_primitive_Timestamp.I b))))
(define-fun cmpRegex ((a S_primitive_Regex) (b S_primitive_Regex)) Int
  (ite (not (= (strcmp (S_primitive_Regex.Pattern a) (S_primitive_Regex.Pattern b)) 0))
       (strcmp (S_primitive_Regex.Pattern a) (S_primitive_Regex.Pattern b))
       (strcmp (S_primitive_Regex.Options a) (S_primitive_Regex.Options b))))

; --- the order itself; sequences through a first-difference witness
(declare-fun fdA (Seq_Val Seq_Val) Int)             ; first index where two arrays differ (or the shorter length)
(declare-fun fdD (Seq_S_primitive_E Seq_S_primitive_E) Int)
(define-fun minI ((a Int) (b Int)) Int (ite (< a b) a b))
(define-fun cmpLen ((a Int) (b Int)) Int (ite (= a b) 0 (ite (< a b) (- 1) 1)))
(define-fun cmpElem ((a S_primitive_E) (b S_primitive_E)) Int
  (ite (not (= (strcmp (S_primitive_E.Key a) (S_primitive_E.Key b)) 0))
       (strcmp (S_primitive_E.Key a) (S_primitive_E.Key b))
       (cmp (S_primitive_E.Value a) (S_primitive_E.Value b))))
(define-fun cmpArr ((a Seq_Val) (b Seq_Val)) Int
  (ite (< (fdA a b) (minI (len.Seq_Val a) (len.Seq_Val b)))
       (cmp (at.Seq_Val a (fdA a b)) (at.Seq_Val b (fdA a b)))
       (cmpLen (len.Seq_Val a) (len.Seq_Val b))))
(define-fun cmpDoc ((a Seq_S_primitive_E) (b Seq_S_primitive_E)) Int
  (ite (< (fdD a b) (minI (len.Seq_S_primitive_E a) (len.Seq_S_primitive_E b)))
       (cmpElem (at.Seq_S_primitive_E a (fdD a b)) (at.Seq_S_primitive_E b (fdD a b)))
       (cmpLen (len.Seq_S_primitive_E a) (len.Seq_S_primitive_E b))))
; fd is the least index at which the element comparison is non-zero, bounded by the shorter length
(assert (forall ((a Seq_Val) (b Seq_Val)) (! (and (<= 0 (fdA a b)) (<= (fdA a b) (minI (len.Seq_Val a) (len.Seq_Val b)))
   (=> (< (fdA a b) (minI (len.Seq_Val a) (len.Seq_Val b))) (not (= (cmp (at.Seq_Val a (fdA a b)) (at.Seq_Val b (fdA a b))) 0))))
   :pattern ((fdA a b)))))
(assert (forall ((a Seq_Val) (b Seq_Val) (i Int)) (! (=> (and (<= 0 i) (< i (fdA a b))) (= (cmp (at.Seq_Val a i) (at.Seq_Val b i)) 0))
   :pattern ((fdA a b) (at.Seq_Val a i)) :pattern ((fdA a b) (at.Seq_Val b i)))))
(assert (forall ((a Seq_S_primitive_E) (b Seq_S_primitive_E)) (! (and (<= 0 (fdD a b)) (<= (fdD a b) (minI (len.Seq_S_primitive_E a) (len.Seq_S_primitive_E b)))
   (=> (< (fdD a b) (minI (len.Seq_S_primitive_E a) (len.Seq_S_primitive_E b))) (not (= (cmpElem (at.Seq_S_primitive_E a (fdD a b)) (at.Seq_S_primitive_E b (fdD a b))) 0))))
   :pattern ((fdD a b)))))
(assert (forall ((a Seq_S_primitive_E) (b Seq_S_primitive_E) (i Int)) (! (=> (and (<= 0 i) (< i (fdD a b))) (= (cmpElem (at.Seq_S_primitive_E a i) (at.Seq_S_primitive_E b i)) 0))
   :pattern ((fdD a b) (at.Seq_S_primitive_E a i)) :pattern ((fdD a b) (at.Seq_S_primitive_E b i)))))
; cmp by class
(define-fun cmpSame ((a Val) (b Val)) Int
  (ite (= (class a) 0) 0
  (ite (= (class a) 1) (cmpNum a b)
  (ite (= (class a) 2) (strcmp (str a) (str b))
  (ite (= (class a) 3) (cmpDoc (doc a) (doc b))
  (ite (= (class a) 4) (cmpArr (arr a) (arr b))
  (ite (= (class a) 5) (cmpBin (bin a) (bin b))
  (ite (= (class a) 6) (cmpOid (oid a) (oid b))
  (ite (= (class a) 7) (cmpBool (bool a) (bool b))
  (ite (= (class a) 8) (cmpI64 (date a) (date b))
  (ite (= (class a) 9) (cmpTs (ts a) (ts b))
       (cmpRegex (regex a) (regex b)))))))))))))
(assert (forall ((a Val) (b Val)) (! (= (cmp a b)
   (ite (< (class a) (class b)) (- 1) (ite (> (class a) (class b)) 1 (cmpSame a b))))
   :pattern ((cmp a b)))))
