package main

import (
	"fmt"
	"os"
	"path/filepath"
	"regexp"
	"strconv"
	"strings"
)

// Clause is one requires / ensures / invariant clause.
type Clause struct {
	Kind  string   // requires, ensures, invariant, decreases, assert
	Tags  []string // property ids
	Label string
	Text  string // expression text
	Loop  int    // loop ordinal for invariant / decreases
	Line  string // where it came from (file:line)
}

// Contract is the set of clauses attached to one function.
type Contract struct {
	Pkg      string // package path ("" for externs => full name in Func)
	Func     string // name as written: compareInt64s, (*Set).Remove, matchComp$1, or pkgpath.Name for externs
	Extern   bool
	Trusted  bool // contract is assumed, the body is not verified
	Pure     bool
	Mode     ArithMode
	ModeSet  bool
	Requires []*Clause
	Ensures  []*Clause
	Modifies []string
	ModSet   bool
	Invs     []*Clause
	Decs     []*Clause // loop decreases
	Decrease *Clause   // function-level (recursion)
	CallInvs []*Clause // invariants checked after every call (callinv)
	Panics   []*Clause // conditions checked on the exit taken when a callback panics
	Uses     []string  // spec modules whose axioms are included
	Lets     [][2]string
	Ghost    []string
	Tags     []string // default tags for safety obligations of this function
	Locals   []string // locals of the function in declaration order when the contract was written (locals.go)
	Opts     map[string]string
	File     string
}

// Macro is a textual abbreviation usable in clauses: define name(a, b) = body
type Macro struct {
	Name   string
	Params []string
	Body   string
	Pkg    string
}

var parsedMacros []*Macro

// parsedGhosts: ghost variables (name -> SMT sort), declared at package level in
// any contract file; they live in the state like heap components (key X:ghost.<name>)
// and are havocked by calls about which nothing is known.
var parsedGhosts = map[string]string{}

// parsedGlobals: assumed facts about package-level variables, by package.
var parsedGlobals = map[string][]string{}

var tagRe = regexp.MustCompile(`^\[([^\]]*)\]\s*`)

func parseTags(rest string) ([]string, string, string) {
	var tags []string
	label := ""
	if m := tagRe.FindStringSubmatch(rest); m != nil {
		for _, t := range strings.FieldsFunc(m[1], func(r rune) bool { return r == ',' || r == ' ' }) {
			if strings.HasPrefix(t, "name=") {
				label = strings.TrimPrefix(t, "name=")
			} else {
				tags = append(tags, t)
			}
		}
		rest = rest[len(m[0]):]
	}
	return tags, label, rest
}

var clauseKeywords = map[string]bool{"func": true, "extern": true, "mode": true, "requires": true, "ensures": true,
	"modifies": true, "decreases": true, "loop": true, "uses": true, "pure": true, "trusted": true, "let": true,
	"tags": true, "opt": true, "locals": true, "ghost": true, "define": true, "callinv": true, "panics": true, "global": true}

// parseContractFile reads the //@ lines of one file.
func parseContractFile(path, pkg string) ([]*Contract, error) {
	data, err := os.ReadFile(path)
	if err != nil {
		return nil, err
	}
	var out []*Contract
	var cur *Contract
	var last *Clause
	var lastLet *[2]string
	var lastMacro *Macro
	for ln, raw := range strings.Split(string(data), "\n") {
		line := strings.TrimSpace(raw)
		if !strings.HasPrefix(line, "//@") {
			continue
		}
		line = strings.TrimSpace(strings.TrimPrefix(line, "//@"))
		if line == "" || strings.HasPrefix(line, "#") {
			continue
		}
		// strip trailing comment
		if i := strings.Index(line, " // "); i >= 0 {
			line = strings.TrimSpace(line[:i])
		}
		fields := strings.Fields(line)
		kw := fields[0]
		rest := strings.TrimSpace(strings.TrimPrefix(line, kw))
		where := fmt.Sprintf("%s:%d", filepath.Base(path), ln+1)
		if !clauseKeywords[kw] {
			// continuation of the previous clause
			if lastMacro != nil && last == nil && lastLet == nil {
				lastMacro.Body += " " + line
			} else if last != nil {
				last.Text += " " + line
			} else if lastLet != nil {
				lastLet[1] += " " + line
			} else {
				return nil, fmt.Errorf("%s: stray line %q", where, line)
			}
			continue
		}
		if kw == "define" {
			// define name(a, b) = body     (textual macro, package level)
			kv := strings.SplitN(rest, "=", 2)
			head := strings.TrimSpace(kv[0])
			op := strings.Index(head, "(")
			if len(kv) != 2 || op < 0 || !strings.HasSuffix(head, ")") {
				return nil, fmt.Errorf("%s: bad define", where)
			}
			m := &Macro{Name: strings.TrimSpace(head[:op]), Body: strings.TrimSpace(kv[1]), Pkg: pkg}
			for _, p := range strings.Split(head[op+1:len(head)-1], ",") {
				if p = strings.TrimSpace(p); p != "" {
					m.Params = append(m.Params, p)
				}
			}
			parsedMacros = append(parsedMacros, m)
			cur = nil
			last = nil
			lastLet = nil
			lastMacro = m
			continue
		}
		if kw == "global" {
			// global <expr>   (package level: a fact about package-level variables that are never
			// reassigned, e.g. `global ErrEngineClosed != nil`; assumed at the entry of every function
			// of the package and listed as an assumption)
			parsedGlobals[pkg] = append(parsedGlobals[pkg], rest)
			cur = nil
			last = nil
			lastLet = nil
			lastMacro = nil
			continue
		}
		if kw == "ghost" && cur == nil {
			// ghost <name> <smt sort>   (package level: a ghost variable, written ghost.<name> in clauses)
			if len(fields) < 3 {
				return nil, fmt.Errorf("%s: bad ghost declaration", where)
			}
			parsedGhosts[fields[1]] = strings.TrimSpace(strings.TrimPrefix(rest, fields[1]))
			last = nil
			lastLet = nil
			lastMacro = nil
			continue
		}
		if kw == "func" || kw == "extern" {
			lastMacro = nil
			cur = &Contract{Pkg: pkg, Func: rest, Extern: kw == "extern", File: where, Opts: map[string]string{}}
			if kw == "extern" {
				cur.Pkg = ""
				cur.Trusted = true
			}
			out = append(out, cur)
			last = nil
			lastLet = nil
			continue
		}
		if cur == nil {
			return nil, fmt.Errorf("%s: clause before func", where)
		}
		last = nil
		lastLet = nil
		switch kw {
		case "mode":
			cur.ModeSet = true
			if rest == "bv" {
				cur.Mode = ModeBV
			} else if rest == "int" {
				cur.Mode = ModeInt
			} else {
				return nil, fmt.Errorf("%s: bad mode %q", where, rest)
			}
		case "pure":
			cur.Pure = true
			if rest != "" {
				cur.Opts["pure"] = rest // `pure docs`: also a function of the documents in the heap
			}
		case "trusted":
			cur.Trusted = true
		case "locals":
			cur.Locals = append(cur.Locals, strings.Fields(rest)...)
		case "uses":
			cur.Uses = append(cur.Uses, strings.Fields(rest)...)
		case "tags":
			cur.Tags = append(cur.Tags, strings.FieldsFunc(rest, func(r rune) bool { return r == ',' || r == ' ' })...)
		case "opt":
			kv := strings.SplitN(rest, "=", 2)
			if len(kv) == 2 {
				cur.Opts[strings.TrimSpace(kv[0])] = strings.TrimSpace(kv[1])
			} else {
				cur.Opts[rest] = "1"
			}
		case "ghost":
			cur.Ghost = append(cur.Ghost, rest)
		case "let":
			kv := strings.SplitN(rest, "=", 2)
			if len(kv) != 2 {
				return nil, fmt.Errorf("%s: bad let", where)
			}
			cur.Lets = append(cur.Lets, [2]string{strings.TrimSpace(kv[0]), strings.TrimSpace(kv[1])})
			lastLet = &cur.Lets[len(cur.Lets)-1]
		case "modifies":
			cur.ModSet = true
			for _, m := range splitTopLevel(rest, ',') {
				m = strings.TrimSpace(m)
				if m != "" && m != "nothing" {
					cur.Modifies = append(cur.Modifies, m)
				}
			}
		case "requires", "ensures":
			tags, label, text := parseTags(rest)
			c := &Clause{Kind: kw, Tags: tags, Label: label, Text: text, Line: where}
			if kw == "requires" {
				cur.Requires = append(cur.Requires, c)
			} else {
				cur.Ensures = append(cur.Ensures, c)
			}
			last = c
		case "panics":
			// what must hold when a callback (a call through a function-typed parameter)
			// panics and the function is left through its deferred calls
			tags, label, text := parseTags(rest)
			c := &Clause{Kind: kw, Tags: tags, Label: label, Text: text, Line: where}
			cur.Panics = append(cur.Panics, c)
			last = c
		case "callinv":
			// an invariant of the ghost state that must hold after every call the function makes
			// (every point at which the function can be interrupted between two external effects)
			tags, label, text := parseTags(rest)
			c := &Clause{Kind: kw, Tags: tags, Label: label, Text: text, Line: where}
			cur.CallInvs = append(cur.CallInvs, c)
			last = c
		case "decreases":
			tags, label, text := parseTags(rest)
			cur.Decrease = &Clause{Kind: kw, Tags: tags, Label: label, Text: text, Line: where}
			last = cur.Decrease
		case "loop":
			if len(fields) < 3 {
				return nil, fmt.Errorf("%s: bad loop clause", where)
			}
			n, err := strconv.Atoi(fields[1])
			if err != nil {
				return nil, fmt.Errorf("%s: bad loop ordinal", where)
			}
			sub := fields[2]
			r2 := strings.TrimSpace(strings.TrimPrefix(strings.TrimSpace(strings.TrimPrefix(rest, fields[1])), sub))
			tags, label, text := parseTags(r2)
			c := &Clause{Kind: sub, Tags: tags, Label: label, Text: text, Loop: n, Line: where}
			switch sub {
			case "invariant":
				cur.Invs = append(cur.Invs, c)
			case "decreases":
				cur.Decs = append(cur.Decs, c)
			default:
				return nil, fmt.Errorf("%s: bad loop clause kind %q", where, sub)
			}
			last = c
		}
	}
	return out, nil
}

// splitTopLevel splits on sep outside parentheses / brackets.
func splitTopLevel(s string, sep byte) []string {
	var out []string
	depth := 0
	start := 0
	for i := 0; i < len(s); i++ {
		switch s[i] {
		case '(', '[', '{':
			depth++
		case ')', ']', '}':
			depth--
		case sep:
			if depth == 0 {
				out = append(out, s[start:i])
				start = i + 1
			}
		}
	}
	out = append(out, s[start:])
	return out
}

// desugarImplies rewrites `a ==> b` (lowest precedence, right associative) into imp(a, b),
// recursively inside parentheses.
func desugarImplies(s string) string {
	// first handle nested parenthesised groups
	var b strings.Builder
	i := 0
	for i < len(s) {
		if s[i] == '(' {
			depth := 1
			j := i + 1
			for j < len(s) && depth > 0 {
				if s[j] == '(' {
					depth++
				} else if s[j] == ')' {
					depth--
				}
				j++
			}
			inner := s[i+1 : j-1]
			// argument lists: desugar each top-level comma part separately
			parts := splitTopLevel(inner, ',')
			for k := range parts {
				parts[k] = desugarImplies(parts[k])
			}
			b.WriteString("(" + strings.Join(parts, ",") + ")")
			i = j
			continue
		}
		b.WriteByte(s[i])
		i++
	}
	flat := b.String()
	// now split on top-level ==>
	depth := 0
	for k := 0; k+2 < len(flat); k++ {
		switch flat[k] {
		case '(', '[':
			depth++
		case ')', ']':
			depth--
		}
		if depth == 0 && flat[k] == '=' && flat[k+1] == '=' && flat[k+2] == '>' {
			lhs := strings.TrimSpace(flat[:k])
			rhs := strings.TrimSpace(flat[k+3:])
			return "imp(" + lhs + ", " + desugarImplies(rhs) + ")"
		}
	}
	return flat
}

var identRe = regexp.MustCompile(`[A-Za-z_][A-Za-z_0-9]*`)

// expandMacros expands the macros visible in package pkg (and the global ones).
func expandMacros(text, pkg string, macros []*Macro) string {
	byName := map[string]*Macro{}
	for _, m := range macros {
		if m.Pkg == "" || m.Pkg == pkg {
			byName[m.Name] = m
		}
	}
	if len(byName) == 0 {
		return text
	}
	for round := 0; round < 30; round++ {
		changed := false
		locs := identRe.FindAllStringIndex(text, -1)
		for _, loc := range locs {
			name := text[loc[0]:loc[1]]
			m := byName[name]
			if m == nil || loc[1] >= len(text) || text[loc[1]] != '(' {
				continue
			}
			if loc[0] > 0 && (text[loc[0]-1] == '.') {
				continue
			}
			// matching paren
			depth := 0
			end := -1
			for i := loc[1]; i < len(text); i++ {
				if text[i] == '(' {
					depth++
				} else if text[i] == ')' {
					depth--
					if depth == 0 {
						end = i
						break
					}
				}
			}
			if end < 0 {
				continue
			}
			args := splitTopLevel(text[loc[1]+1:end], ',')
			if len(m.Params) == 0 {
				args = nil
			}
			if len(args) != len(m.Params) {
				continue
			}
			body := identRe.ReplaceAllStringFunc(m.Body, func(id string) string {
				for i, p := range m.Params {
					if p == id {
						return "(" + strings.TrimSpace(args[i]) + ")"
					}
				}
				return id
			})
			text = text[:loc[0]] + "(" + body + ")" + text[end+1:]
			changed = true
			break
		}
		if !changed {
			break
		}
	}
	return text
}
