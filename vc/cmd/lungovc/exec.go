package main

import (
	"fmt"
	"go/constant"
	"go/token"
	"go/types"
	"math"
	"regexp"
	"strings"

	"golang.org/x/tools/go/ssa"
)

// Frame is one activation of a function being executed symbolically (the
// function under contract, or an inlined callee).
type Frame struct {
	vc     *VC
	fn     *ssa.Function
	con    *Contract
	prefix string // obligation name prefix for inlined code
	vals   map[ssa.Value]Value
	reach  map[*ssa.BasicBlock]Term
	out    map[*ssa.BasicBlock]*State
	edge   map[[2]int]Term
	entry  *State
	args   []Value
	depth  int
	rets   []retPoint
	loops  map[*ssa.BasicBlock]*Loop
	cur    *ssa.BasicBlock
	top    bool
	bind   []Value // free variable bindings (closures)
	names  map[string][]ssa.Value
	fid    int // frame number within the VC (value-sequence version keys)
	// nameAt: the block of the debug reference that recorded names[name][i]
	nameAt map[string][]*ssa.BasicBlock
	order  []*ssa.BasicBlock
	tags   []string
	alias  map[string]string // contract-recorded local name -> current name (locals.go)
}

type retPoint struct {
	cond Term
	vals []Value
	st   *State
	pos  token.Pos
	ins  *ssa.Return
}

type Loop struct {
	Header  *ssa.BasicBlock
	Body    map[*ssa.BasicBlock]bool
	Latches []*ssa.BasicBlock
	Ordinal int
	phiNew  map[*ssa.Phi]Term
	hstate  *State
	varOld  Term // value of the variant at the header
	hasVar  bool
	invs    []*Clause
	dec     *Clause
	// pre / preVals: the state and the values of the header phis when the loop is
	// entered (what before(...) in the loop's clauses refers to)
	pre     *State
	preVals map[*ssa.Phi]Term
}

func (f *Frame) pos(p token.Pos) string {
	if !p.IsValid() {
		return ""
	}
	ps := f.vc.w.prog.Fset.Position(p)
	return fmt.Sprintf("%s:%d", strings.TrimPrefix(ps.Filename, f.vc.w.repo+"/"), ps.Line)
}

// ---------------------------------------------------------------------------
// value lookup

func (f *Frame) term(v ssa.Value, st *State) Term {
	val := f.value(v, st)
	switch x := val.(type) {
	case Term:
		return x
	case *Addr:
		return f.addrToTerm(x)
	case *Closure:
		return x.Term
	case Tuple:
		panic("tuple used as term: " + v.Name())
	}
	panic(fmt.Sprintf("no term for %s (%T)", v.Name(), val))
}

func (f *Frame) value(v ssa.Value, st *State) Value {
	switch c := v.(type) {
	case *ssa.Const:
		return f.constTerm(c)
	case *ssa.Global:
		return &Addr{Kind: aGlobal, Key: "G:" + c.String(), Sort: f.vc.sorts.sortOf(c.Type().(*types.Pointer).Elem()), Typ: c.Type().(*types.Pointer).Elem()}
	case *ssa.Function:
		return T(sFn, "%d", int(hashString(funcKey(c))%1000000)+1)
	case *ssa.Builtin:
		return T(sFn, "0")
	case *ssa.FreeVar:
		for i, fv := range f.fn.FreeVars {
			if fv == c && i < len(f.bind) {
				return f.bind[i]
			}
		}
		if val, ok := f.vals[v]; ok {
			return val
		}
		// unknown binding: pointer to a captured variable
		a := &Addr{Kind: aUnknown, Sort: f.vc.sorts.sortOf(derefType(c.Type())), Typ: derefType(c.Type())}
		f.vals[v] = a
		return a
	}
	val, ok := f.vals[v]
	if !ok {
		panic(fmt.Sprintf("value %s of %s not yet defined", v.Name(), f.fn.Name()))
	}
	if t, isT := val.(Term); isT && st != nil {
		if strings.HasPrefix(t.Sort, "Seq_") {
			return st.getOpt(f.verKey(v), t)
		}
	}
	return val
}

func (f *Frame) verKey(v ssa.Value) string {
	// (keyed by a per-VC frame number, not by the frame's address: the SMT text of an
	// obligation must be the same on every run, or the solvers' behaviour is not)
	return fmt.Sprintf("V:f%d:%s", f.fnum(), v.Name())
}

// fnum: the number of this frame within its VC (stable across runs).
func (f *Frame) fnum() int {
	if f.fid == 0 {
		f.vc.nframes++
		f.fid = f.vc.nframes
	}
	return f.fid
}

func derefType(t types.Type) types.Type {
	if p, ok := t.Underlying().(*types.Pointer); ok {
		return p.Elem()
	}
	return t
}

func (f *Frame) constTerm(c *ssa.Const) Term {
	s := f.vc.sorts
	t := c.Type()
	srt := s.sortOf(t)
	if c.Value == nil {
		return f.zeroOf(t)
	}
	switch c.Value.Kind() {
	case constant.Bool:
		if constant.BoolVal(c.Value) {
			return tTrue()
		}
		return tFalse()
	case constant.String:
		return f.vc.strLit(constant.StringVal(c.Value))
	case constant.Int:
		if srt == sF64 || srt == sF32 {
			fl, _ := constant.Float64Val(c.Value)
			return f.floatLit(fl, srt)
		}
		if n, ok := isBV(srt); ok {
			if i, exact := constant.Int64Val(c.Value); exact {
				return Term{bvLit(uint64(i), n), srt}
			}
			u, _ := constant.Uint64Val(c.Value)
			return Term{bvLit(u, n), srt}
		}
		if i, exact := constant.Int64Val(c.Value); exact {
			return Term{intLit(i), sInt}
		}
		u, _ := constant.Uint64Val(c.Value)
		return Term{fmt.Sprintf("%d", u), sInt}
	case constant.Float:
		fl, _ := constant.Float64Val(c.Value)
		return f.floatLit(fl, srt)
	}
	return f.vc.freshConst("const", srt)
}

func (f *Frame) floatLit(v float64, srt string) Term {
	if srt == sF32 {
		bits := math.Float32bits(float32(v))
		return T(sF32, "(fp #b%01b #b%08b #b%023b)", bits>>31, (bits>>23)&0xff, bits&0x7fffff)
	}
	bits := math.Float64bits(v)
	return T(sF64, "(fp #b%01b #b%011b #b%052b)", bits>>63, (bits>>52)&0x7ff, bits&0xfffffffffffff)
}

// zeroOf returns the zero value of a Go type.
func (f *Frame) zeroOf(t types.Type) Term {
	s := f.vc.sorts
	srt := s.sortOf(t)
	return f.zeroOfSort(srt, t)
}

func (f *Frame) zeroOfSort(srt string, t types.Type) Term {
	s := f.vc.sorts
	switch srt {
	case sBool:
		return tFalse()
	case sInt, sRef, sErr, sIfc, sFn:
		return Term{"0", srt}
	case sVal:
		return Term{"VNil", sVal}
	case sStr:
		return f.vc.strLit("")
	case sF64:
		return f.floatLit(0, sF64)
	case sF32:
		return f.floatLit(0, sF32)
	case sSl:
		return Term{"(mk.Sl 0 0 0 0)", sSl}
	case "Dec":
		return Term{"dec.zero", "Dec"}
	}
	if n, ok := isBV(srt); ok {
		return Term{bvLit(0, n), srt}
	}
	if strings.HasPrefix(srt, "Seq_") {
		f.vc.declareFunOnce("nil."+srt, nil, srt)
		nilT := Term{"nil." + srt, srt}
		f.assumeOnce(tEq(f.seqLenRaw(nilT), f.wordLit(0)))
		return nilT
	}
	if info, ok := s.structs[srt]; ok {
		if len(info.Fields) == 0 {
			return Term{"mk." + srt, srt}
		}
		var parts []string
		var st *types.Struct
		if t != nil {
			st, _ = t.Underlying().(*types.Struct)
		}
		for i := range info.Fields {
			var ft types.Type
			if st != nil && i < st.NumFields() {
				ft = st.Field(i).Type()
			}
			parts = append(parts, f.zeroOfSort(info.FSorts[i], ft).S)
		}
		return Term{"(mk." + srt + " " + strings.Join(parts, " ") + ")", srt}
	}
	if strings.HasPrefix(srt, "(Array Int ") {
		es := strings.TrimSuffix(strings.TrimPrefix(srt, "(Array Int "), ")")
		var et types.Type
		if t != nil {
			if a, ok := t.Underlying().(*types.Array); ok {
				et = a.Elem()
			}
		}
		ze := f.zeroOfSort(es, et)
		if strings.Contains(ze.S, "!") || strings.Contains(ze.S, "nil.") {
			// cvc5 accepts only values in constant arrays: describe the array by an axiom instead
			if c, ok := f.vc.subCache["zeroarr:"+srt]; ok {
				return c
			}
			c := f.vc.freshConst("zeroarr", srt)
			f.vc.assumeOwned(c, T(sBool, "(forall ((k!q Int)) (! (= (select %s k!q) %s) :pattern ((select %s k!q))))", c.S, ze.S, c.S))
			if f.vc.subCache == nil {
				f.vc.subCache = map[string]Term{}
			}
			f.vc.subCache["zeroarr:"+srt] = c
			return c
		}
		return Term{fmt.Sprintf("((as const %s) %s)", srt, ze.S), srt}
	}
	return f.vc.freshConst("zero", srt)
}

func (vc *VC) declareFunOnce(name string, args []string, ret string) {
	vc.declareFun(name, args, ret)
}

func (f *Frame) assumeOnce(t Term) {
	if f.vc.lenSeen[t.S] {
		return
	}
	f.vc.lenSeen[t.S] = true
	f.vc.assume(t)
}

func (f *Frame) wordLit(v int64) Term {
	if f.vc.mode == ModeBV {
		return Term{bvLit(uint64(v), 64), bvSort(64)}
	}
	return Term{intLit(v), sInt}
}

// ---------------------------------------------------------------------------
// sequences, slices, strings: len / at

const maxLen = "281474976710656" // 2^48

func (f *Frame) seqLenRaw(x Term) Term {
	if f.vc.mode == ModeBV {
		return T(bvSort(64), "(lenbv.%s %s)", x.Sort, x.S)
	}
	return T(sInt, "(len.%s %s)", x.Sort, x.S)
}

// slIndex: the position of element idx of the heap slice sl in its backing array,
// off + idx. Inside a quantified clause (idx mentions a bound variable) it is written
// sl.ix(off, idx), an uninterpreted function with the defining axiom sl.ix(a, b) = a + b:
// the solvers normalise sums, so `(+ off k)` never matches as a trigger, while
// sl.ix(off, k) matches every ground sl.ix(off, _). Ground accesses keep the plain sum
// and state the ground sl.ix term as a fact, which is what the triggers match against.
func (f *Frame) slIndex(sl, idx Term) string {
	plain := fmt.Sprintf("(+ (Sl.off %s) %s)", sl.S, idx.S)
	if idx.Sort != sInt {
		return plain
	}
	ix := fmt.Sprintf("(sl.ix (Sl.off %s) %s)", sl.S, idx.S)
	if boundVarRE.MatchString(idx.S+" ") || boundVarRE.MatchString(sl.S+" ") {
		return ix
	}
	if !strings.Contains(ix, "!x") && !strings.Contains(ix, "!a ") {
		f.assumeOnce(T(sBool, "(= %s %s)", ix, plain))
	}
	return plain
}

var boundVarRE = regexp.MustCompile(`!b[\s)]`)

func (f *Frame) lenFact(l Term) {
	if boundVarRE.MatchString(l.S + " ") {
		// the term mentions a quantifier's bound variable: no ground fact can be stated about it
		return
	}
	if f.vc.mode == ModeBV {
		f.assumeOnce(T(sBool, "(and (bvsle (_ bv0 64) %s) (bvsle %s (_ bv%s 64)))", l.S, l.S, maxLen))
	} else {
		f.assumeOnce(T(sBool, "(and (<= 0 %s) (<= %s %s))", l.S, l.S, maxLen))
	}
}

// lenOf returns len(x) for a slice / sequence / string term.
func (f *Frame) lenOf(x Term) Term {
	var l Term
	switch {
	case x.Sort == sStr:
		if f.vc.mode == ModeBV {
			l = T(bvSort(64), "(gs.lenbv %s)", x.S)
		} else {
			l = T(sInt, "(gs.len %s)", x.S)
		}
	case x.Sort == sSl:
		l = T(sInt, "(Sl.len %s)", x.S)
	case strings.HasPrefix(x.Sort, "Seq_"):
		l = f.seqLenRaw(x)
	default:
		return f.vc.freshConst("len", f.vc.sorts.wordSort())
	}
	f.lenFact(l)
	return l
}

func (f *Frame) seqAt(x Term, i Term) Term {
	es := f.vc.sorts.seqs[x.Sort]
	if f.vc.mode == ModeBV {
		return T(es, "(atbv.%s %s %s)", x.Sort, x.S, i.S)
	}
	return T(es, "(at.%s %s %s)", x.Sort, x.S, i.S)
}

// word comparisons / arithmetic in the current mode (signed)
func (f *Frame) wLe(a, b Term) Term {
	if f.vc.mode == ModeBV {
		return T(sBool, "(bvsle %s %s)", a.S, b.S)
	}
	return T(sBool, "(<= %s %s)", a.S, b.S)
}
func (f *Frame) wLt(a, b Term) Term {
	if f.vc.mode == ModeBV {
		return T(sBool, "(bvslt %s %s)", a.S, b.S)
	}
	return T(sBool, "(< %s %s)", a.S, b.S)
}
func (f *Frame) wAdd(a, b Term) Term {
	if f.vc.mode == ModeBV {
		return T(a.Sort, "(bvadd %s %s)", a.S, b.S)
	}
	return T(sInt, "(+ %s %s)", a.S, b.S)
}
func (f *Frame) wSub(a, b Term) Term {
	if f.vc.mode == ModeBV {
		return T(a.Sort, "(bvsub %s %s)", a.S, b.S)
	}
	return T(sInt, "(- %s %s)", a.S, b.S)
}

func (f *Frame) inBounds(i, n Term) Term {
	return tAnd(f.wLe(f.wordLit(0), i), f.wLt(i, n))
}

// ---------------------------------------------------------------------------
// obligations

func (f *Frame) safety(kind, desc string, reach Term, goal Term, p token.Pos) {
	name := "safe/" + kind + "@" + f.prefix + f.vc.site(desc)
	tags := append([]string{"C20"}, f.tags...)
	f.vc.oblige("safe/"+kind, name, tags, reach, goal, f.pos(p))
	// after the check the program continues only if it succeeded
	f.vc.assume(tImp(reach, goal))
}

// ---------------------------------------------------------------------------
// addresses

func (f *Frame) addrToTerm(a *Addr) Term {
	switch a.Kind {
	case aObjField:
		fn := "fptr." + smtName(a.Key)
		f.vc.declareFunOnce(fn, []string{sInt}, sInt)
		return T(sRef, "(%s %s)", fn, a.Ref.S)
	case aGlobal:
		fn := "gptr." + smtName(a.Key)
		f.vc.declareFunOnce(fn, nil, sInt)
		return T(sRef, "%s", fn)
	case aDeref:
		return a.Ref
	}
	f.vc.note("%s: interior pointer escapes (treated as an opaque reference)", funcKey(f.fn))
	t := f.vc.freshConst("ptr", sRef)
	f.vc.assume(T(sBool, "(not (= %s 0))", t.S))
	return t
}

func (f *Frame) compKey(prefix, name, sort string) string {
	key := prefix + name
	var full string
	switch prefix {
	case "F:", "D:", "G:", "X:":
		full = "(Array Int " + sort + ")"
	case "E:":
		full = "(Array Int (Array Int " + sort + "))"
	default:
		full = sort
	}
	if old, ok := f.vc.compSrt[key]; ok && old != full {
		panic(fmt.Sprintf("component %s has two sorts: %s / %s", key, old, full))
	}
	f.vc.compSrt[key] = full
	return key
}

// fieldAddr builds the address of field idx of the struct pointed to by x.
func (f *Frame) fieldAddr(x Value, structT types.Type, idx int) *Addr {
	st := structT.Underlying().(*types.Struct)
	ssort := f.vc.sorts.sortOf(structT)
	fld := st.Field(idx)
	fsort := f.vc.sorts.sortOf(fld.Type())
	switch p := x.(type) {
	case *Addr:
		return &Addr{Kind: aSubField, Parent: p, Field: ssort + "." + smtName(fld.Name()), SSort: ssort, Sort: fsort, Typ: fld.Type()}
	case Term:
		key := f.compKey("F:", ssort+"."+fld.Name(), fsort)
		return &Addr{Kind: aObjField, Ref: p, Key: key, Sort: fsort, Typ: fld.Type()}
	}
	panic("fieldAddr: bad base")
}

func (f *Frame) derefAddr(p Term, elem types.Type) *Addr {
	srt := f.vc.sorts.sortOf(elem)
	key := f.compKey("D:", sortTag(srt), srt)
	return &Addr{Kind: aDeref, Ref: p, Key: key, Sort: srt, Typ: elem}
}

func (f *Frame) load(a *Addr, st *State) Term {
	switch a.Kind {
	case aObjField, aDeref:
		return f.vc.sel(st.get(a.Key), a.Ref, a.Sort)
	case aCell:
		return st.get(a.Key)
	case aGlobal:
		key := f.compKey("G:", strings.TrimPrefix(a.Key, "G:"), a.Sort)
		return T(a.Sort, "(select %s 0)", st.get(key).S)
	case aSubField:
		return T(a.Sort, "(%s %s)", a.Field, f.load(a.Parent, st).S)
	case aSubIndex:
		return T(a.Sort, "(select %s %s)", f.load(a.Parent, st).S, a.Idx.S)
	case aSeqElem:
		cur := a.Seq
		if a.SeqKey != "" {
			cur = st.getOpt(a.SeqKey, a.Seq)
		}
		return f.seqAt(cur, a.Idx)
	case aHeapElem:
		key := f.compKey("E:", sortTag(a.Sort), a.Sort)
		// el.<sort>(content, off, i) = content[off+i]: an uninterpreted accessor with a defining
		// axiom, so that quantified clauses over slice elements get terms in which the index
		// stands alone (select ... (+ off i) is a poor trigger)
		// (tried and dropped: it made the Set.Remove invariants undischargeable)
		return T(a.Sort, "(select (select %s (Sl.base %s)) %s)", st.get(key).S, a.Sl.S, f.slIndex(a.Sl, a.Idx))
	}
	return f.vc.freshConst("load", a.Sort)
}

func (f *Frame) structUpdate(ssort string, whole Term, field string, v Term) Term {
	info := f.vc.sorts.structs[ssort]
	var parts []string
	for _, fn := range info.Fields {
		acc := ssort + "." + smtName(fn)
		if acc == field {
			parts = append(parts, v.S)
		} else {
			parts = append(parts, fmt.Sprintf("(%s %s)", acc, whole.S))
		}
	}
	return T(ssort, "(mk.%s %s)", ssort, strings.Join(parts, " "))
}

func (f *Frame) store(a *Addr, v Term, st *State, reach Term, p token.Pos) {
	switch a.Kind {
	case aObjField, aDeref:
		f.frameCheck(a.Key, a.Ref, st, reach, p)
		old := st.get(a.Key)
		st.set(a.Key, f.vc.storeTerm(a.Key, old, a.Ref, v))
	case aCell:
		st.set(a.Key, v)
	case aGlobal:
		key := f.compKey("G:", strings.TrimPrefix(a.Key, "G:"), a.Sort)
		old := st.get(key)
		st.set(key, T(old.Sort, "(store %s 0 %s)", old.S, v.S))
	case aSubField:
		whole := f.load(a.Parent, st)
		f.store(a.Parent, f.vc.define("upd", f.structUpdate(a.SSort, whole, a.Field, v)), st, reach, p)
	case aSubIndex:
		whole := f.load(a.Parent, st)
		f.store(a.Parent, f.vc.define("upd", T(whole.Sort, "(store %s %s %s)", whole.S, a.Idx.S, v.S)), st, reach, p)
	case aSeqElem:
		cur := a.Seq
		if a.SeqKey != "" {
			cur = st.getOpt(a.SeqKey, a.Seq)
		}
		nw := f.seqUpdate(cur, a.Idx, v)
		if a.SeqKey != "" {
			st.set(a.SeqKey, nw)
		}
	case aHeapElem:
		key := f.compKey("E:", sortTag(a.Sort), a.Sort)
		base := T(sInt, "(Sl.base %s)", a.Sl.S)
		f.frameCheck(key, base, st, reach, p)
		old := st.get(key)
		st.set(key, f.vc.define(key, T(old.Sort, "(store %s %s (store (select %s %s) %s %s))", old.S, base.S, old.S, base.S, f.slIndex(a.Sl, a.Idx), v.S)))
	case aUnknown:
		f.vc.note("%s: store through an untracked pointer (heap havocked)", funcKey(f.fn))
		*st = *st.havocAll("store through unknown pointer")
	}
}

// seqUpdate returns a fresh sequence equal to s except at index i.
func (f *Frame) seqUpdate(s Term, i Term, v Term) Term {
	r := f.vc.freshConst("sequpd", s.Sort)
	f.vc.assume(tEq(f.seqLenRaw(r), f.seqLenRaw(s)))
	if f.vc.mode == ModeBV {
		f.vc.assumeOwned(r, T(sBool, "(forall ((k!q (_ BitVec 64))) (! (= %s (ite (= k!q %s) %s %s)) :pattern (%s)))",
			f.seqAt(r, Term{"k!q", bvSort(64)}).S, i.S, v.S, f.seqAt(s, Term{"k!q", bvSort(64)}).S, f.seqAt(r, Term{"k!q", bvSort(64)}).S))
	} else {
		f.vc.assumeOwned(r, T(sBool, "(forall ((k!q Int)) (! (= %s (ite (= k!q %s) %s %s)) :pattern (%s)))",
			f.seqAt(r, Term{"k!q", sInt}).S, i.S, v.S, f.seqAt(s, Term{"k!q", sInt}).S, f.seqAt(r, Term{"k!q", sInt}).S))
	}
	return r
}

// frameCheck emits the frame obligation for a heap write (only for functions
// whose contract has a modifies clause).
func (f *Frame) frameCheck(key string, ref Term, st *State, reach Term, p token.Pos) {
	f.frameCheckNamed("", key, ref, st, reach, p)
}

func (f *Frame) frameCheckNamed(name, key string, ref Term, st *State, reach Term, p token.Pos) {
	top := f.vc
	if top.con == nil || !top.con.ModSet {
		return
	}
	if strings.HasPrefix(key, "G:") || strings.HasPrefix(key, "L:") {
		return
	}
	allowed := []Term{T(sBool, "(>= (alloc %s) now!0)", ref.S)}
	for _, m := range top.frameTargets {
		if m.all {
			return
		}
		if m.since != nil {
			allowed = append(allowed, T(sBool, "(>= (alloc %s) %s)", ref.S, m.since.S))
			continue
		}
		if m.key == key {
			if m.whole {
				return
			}
			allowed = append(allowed, tEq(ref, m.ref))
		}
	}
	if name == "" {
		name = "frame@" + f.prefix + top.site("store:"+key)
	}
	top.oblige("frame", name, top.frameTags, reach, tOr(allowed...), f.pos(p)).Desc = "write to " + key + " stays inside the declared frame (or goes to fresh memory)"
}
