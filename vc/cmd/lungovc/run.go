package main

import (
	"fmt"
	"go/token"
	"go/types"
	"sort"
	"strings"

	"golang.org/x/tools/go/ssa"
)

func havocInPlace(st *State, why string) {
	old := new(State)
	*old = *st
	n := old.havocAll(why)
	*st = *n
}

// ---------------------------------------------------------------------------
// CFG analysis

func isBackEdge(from, to *ssa.BasicBlock) bool {
	return to.Dominates(from)
}

func (f *Frame) analyse() {
	fn := f.fn
	f.loops = map[*ssa.BasicBlock]*Loop{}
	// loops: group back edges by header
	for _, b := range fn.Blocks {
		for _, s := range b.Succs {
			if isBackEdge(b, s) {
				l := f.loops[s]
				if l == nil {
					l = &Loop{Header: s, Body: map[*ssa.BasicBlock]bool{s: true}}
					f.loops[s] = l
				}
				l.Latches = append(l.Latches, b)
				// natural loop body
				stack := []*ssa.BasicBlock{b}
				for len(stack) > 0 {
					x := stack[len(stack)-1]
					stack = stack[:len(stack)-1]
					if l.Body[x] {
						continue
					}
					l.Body[x] = true
					stack = append(stack, x.Preds...)
				}
			}
		}
	}
	// ordinals by header block index (source order)
	var hs []*ssa.BasicBlock
	for h := range f.loops {
		hs = append(hs, h)
	}
	sort.Slice(hs, func(i, j int) bool { return hs[i].Index < hs[j].Index })
	for i, h := range hs {
		f.loops[h].Ordinal = i
	}
	// reverse post order ignoring back edges
	seen := map[*ssa.BasicBlock]bool{}
	var post []*ssa.BasicBlock
	var dfs func(b *ssa.BasicBlock)
	dfs = func(b *ssa.BasicBlock) {
		seen[b] = true
		for _, s := range b.Succs {
			if !seen[s] && !isBackEdge(b, s) {
				dfs(s)
			}
		}
		post = append(post, b)
	}
	if len(fn.Blocks) > 0 {
		dfs(fn.Blocks[0])
	}
	for i := len(post) - 1; i >= 0; i-- {
		f.order = append(f.order, post[i])
	}
}

// ---------------------------------------------------------------------------
// running a function body

// run executes the body of f.fn from state st under condition reach, with the
// given argument values. It returns the list of return points.
func (f *Frame) run(st *State, reach Term) {
	fn := f.fn
	f.vals = map[ssa.Value]Value{}
	f.reach = map[*ssa.BasicBlock]Term{}
	f.out = map[*ssa.BasicBlock]*State{}
	f.edge = map[[2]int]Term{}
	f.entry = st
	for i, p := range fn.Params {
		f.vals[p] = f.args[i]
	}
	f.analyse()
	for _, b := range f.order {
		f.cur = b
		var bst *State
		var br Term
		loop := f.loops[b]
		if b == fn.Blocks[0] {
			bst = st.derive()
			br = reach
		} else {
			var preds []*State
			var conds []Term
			var predBlocks []*ssa.BasicBlock
			for _, p := range b.Preds {
				if isBackEdge(p, b) {
					continue
				}
				ec, ok := f.edge[[2]int{p.Index, b.Index}]
				if !ok {
					continue // unreachable predecessor (e.g. after panic)
				}
				preds = append(preds, f.out[p])
				conds = append(conds, ec)
				predBlocks = append(predBlocks, p)
			}
			if len(preds) == 0 {
				continue // unreachable block
			}
			br = f.vc.define("reach", tOr(conds...))
			if br.S != "true" && br.S != "false" && len(conds) > 1 {
				br = f.vc.defineAlways(fmt.Sprintf("reach.b%d", b.Index), br)
			}
			bst = mergeStates(f.vc, preds, conds)
			// phis
			if loop == nil {
				for _, ins := range b.Instrs {
					phi, ok := ins.(*ssa.Phi)
					if !ok {
						break
					}
					f.vals[phi] = f.mergePhi(phi, b, predBlocks, conds)
				}
			} else {
				f.enterLoop(loop, b, predBlocks, conds, preds, bst, br)
				bst = loop.hstate.derive()
			}
		}
		// a phi carries the source name of the variable it merges: from here on that
		// name means the phi (until a later debug reference says otherwise)
		for _, ins := range b.Instrs {
			phi, ok := ins.(*ssa.Phi)
			if !ok {
				break
			}
			if _, has := f.vals[phi]; has && phi.Comment != "" && phi.Comment != "rangeindex" {
				f.recordName(phi.Comment, phi, b)
			}
		}
		f.reach[b] = br
		f.execBlock(b, bst, br)
	}
}

func (f *Frame) phiOperand(phi *ssa.Phi, b *ssa.BasicBlock, pred *ssa.BasicBlock) ssa.Value {
	for i, p := range b.Preds {
		if p == pred {
			return phi.Edges[i]
		}
	}
	panic("phi operand")
}

func (f *Frame) mergePhi(phi *ssa.Phi, b *ssa.BasicBlock, preds []*ssa.BasicBlock, conds []Term) Value {
	var ts []Term
	same := true
	for _, p := range preds {
		ov := f.phiOperand(phi, b, p)
		t := f.term(ov, f.out[p])
		if len(ts) > 0 && t.S != ts[0].S {
			same = false
		}
		ts = append(ts, t)
	}
	if same {
		return ts[0]
	}
	acc := ts[len(ts)-1]
	for i := len(ts) - 2; i >= 0; i-- {
		acc = tIte(conds[i], ts[i], acc)
	}
	name := phi.Comment
	if name == "" {
		name = phi.Name()
	}
	return f.vc.defineAlways(name, acc)
}

func (f *Frame) setEdge(from, to *ssa.BasicBlock, cond Term) {
	if isBackEdge(from, to) {
		return
	}
	k := [2]int{from.Index, to.Index}
	if old, ok := f.edge[k]; ok {
		cond = tOr(old, cond)
	}
	if len(cond.S) > 30 {
		cond = f.vc.defineAlways(fmt.Sprintf("edge.b%d.b%d", from.Index, to.Index), cond)
	}
	f.edge[k] = cond
}

func (f *Frame) execBlock(b *ssa.BasicBlock, st *State, reach Term) {
	for _, ins := range b.Instrs {
		if f.vc.failed != nil {
			return
		}
		f.execInstr(ins, st, reach)
	}
	f.out[b] = st
	// successors
	if len(b.Instrs) == 0 {
		return
	}
	switch last := b.Instrs[len(b.Instrs)-1].(type) {
	case *ssa.If:
		c := f.term(last.Cond, st)
		f.branch(b, b.Succs[0], tAnd(reach, c), st, reach)
		f.branch(b, b.Succs[1], tAnd(reach, tNot(c)), st, reach)
	case *ssa.Jump:
		f.branch(b, b.Succs[0], reach, st, reach)
	}
}

func (f *Frame) branch(from, to *ssa.BasicBlock, cond Term, st *State, reach Term) {
	if isBackEdge(from, to) {
		f.backEdge(f.loops[to], from, cond, st)
		return
	}
	f.setEdge(from, to, cond)
}

// ---------------------------------------------------------------------------
// instructions

func (f *Frame) unsupported(ins ssa.Instruction, what string) {
	f.vc.note("%s: %s not modelled (%s); result unconstrained", funcKey(f.fn), what, f.pos(ins.Pos()))
	if v, ok := ins.(ssa.Value); ok {
		f.vals[v] = f.havocValue(v.Type(), v.Name())
	}
}

func (f *Frame) havocValue(t types.Type, hint string) Value {
	if tup, ok := t.(*types.Tuple); ok {
		var out Tuple
		for i := 0; i < tup.Len(); i++ {
			out = append(out, f.havocValue(tup.At(i).Type(), hint))
		}
		return out
	}
	srt := f.vc.sorts.sortOf(t)
	c := f.vc.freshConst(hint, srt)
	f.typeFacts(c, t)
	return c
}

// typeFacts assumes the facts every value of a type satisfies.
func (f *Frame) typeFacts(c Term, t types.Type) {
	if c.Sort == sInt && f.vc.mode == ModeInt && isWordType(t) {
		_, signed, _ := intInfo(t)
		if signed {
			f.vc.assume(T(sBool, "(and (<= (- 9223372036854775808) %s) (<= %s 9223372036854775807))", c.S, c.S))
		} else {
			f.vc.assume(T(sBool, "(and (<= 0 %s) (<= %s 18446744073709551615))", c.S, c.S))
		}
	}
	if c.Sort == sSl {
		f.vc.assume(T(sBool, "(and (<= 0 (Sl.off %s)) (<= 0 (Sl.len %s)) (<= (Sl.len %s) (Sl.cap %s)) (<= (Sl.cap %s) %s))", c.S, c.S, c.S, c.S, c.S, maxLen))
	}
}

func (f *Frame) execInstr(ins ssa.Instruction, st *State, reach Term) {
	defer func() {
		if r := recover(); r != nil {
			if f.vc.failed == nil {
				f.vc.failed = fmt.Errorf("%s: at %s (%s): %v", funcKey(f.fn), f.pos(ins.Pos()), ins.String(), r)
			}
			return
		}
		// a value sequence defined inside a loop: the version the loop havocked at its
		// head (element updates are recorded per value) is that of the previous iteration
		if v, isV := ins.(ssa.Value); isV && st != nil {
			if _, isPhi := ins.(*ssa.Phi); !isPhi {
				if t, isT := f.vals[v].(Term); isT && strings.HasPrefix(t.Sort, "Seq_") {
					f.vc.compSrt[f.verKey(v)] = t.Sort
					st.set(f.verKey(v), t)
				}
			}
		}
	}()
	switch x := ins.(type) {
	case *ssa.DebugRef:
		if id, ok := x.Expr.(interface{ String() string }); ok && x.Object() != nil {
			_ = id
			f.recordName(x.Object().Name(), x.X, x.Block())
		}
	case *ssa.Phi:
		// handled at block entry
	case *ssa.If, *ssa.Jump:
	case *ssa.Alloc:
		f.execAlloc(x, st)
	case *ssa.BinOp:
		f.vals[x] = f.binop(x, st, reach)
	case *ssa.UnOp:
		f.vals[x] = f.unop(x, st, reach)
	case *ssa.Call:
		f.vals[x] = f.call(x, &x.Call, st, reach)
		f.callInv(&x.Call, st, reach, x.Pos())
	case *ssa.ChangeInterface:
		v := f.term(x.X, st)
		ns := f.vc.sorts.sortOf(x.Type())
		if v.Sort == ns {
			f.vals[x] = v
		} else if ns == sVal {
			f.vals[x] = f.boxOther(v, x.X.Type())
		} else {
			f.vals[x] = f.havocValue(x.Type(), x.Name())
		}
	case *ssa.ChangeType:
		v := f.value(x.X, st)
		f.vals[x] = v
	case *ssa.Convert:
		f.vals[x] = f.convert(f.term(x.X, st), x.X.Type(), x.Type())
	case *ssa.MultiConvert:
		f.unsupported(x, "multi-convert")
	case *ssa.Extract:
		tup := f.value(x.Tuple, st)
		if tt, ok := tup.(Tuple); ok {
			f.vals[x] = tt[x.Index]
		} else {
			f.unsupported(x, "extract of non-tuple")
		}
	case *ssa.Field:
		v := f.term(x.X, st)
		stt := x.X.Type().Underlying().(*types.Struct)
		fs := f.vc.sorts.sortOf(stt.Field(x.Field).Type())
		f.vals[x] = T(fs, "(%s.%s %s)", v.Sort, smtName(stt.Field(x.Field).Name()), v.S)
	case *ssa.FieldAddr:
		base := f.value(x.X, st)
		pt := x.X.Type().Underlying().(*types.Pointer).Elem()
		if bt, ok := base.(Term); ok {
			f.safety("nil", "deref:"+shortVal(x.X)+"."+pt.Underlying().(*types.Struct).Field(x.Field).Name(), reach, T(sBool, "(not (= %s 0))", bt.S), x.Pos())
		}
		if a, ok := base.(*Addr); ok && a.Kind == aUnknown {
			ft := pt.Underlying().(*types.Struct).Field(x.Field).Type()
			f.vals[x] = &Addr{Kind: aUnknown, Sort: f.vc.sorts.sortOf(ft), Typ: ft}
			return
		}
		f.vals[x] = f.fieldAddr(base, pt, x.Field)
	case *ssa.Index:
		f.execIndex(x, st, reach)
	case *ssa.IndexAddr:
		f.execIndexAddr(x, st, reach)
	case *ssa.Lookup:
		f.execLookup(x, st, reach)
	case *ssa.MakeInterface:
		f.vals[x] = f.makeInterface(f.value(x.X, st), x.X.Type(), x.Type())
	case *ssa.MakeClosure:
		var binds []Value
		for _, b := range x.Bindings {
			binds = append(binds, f.value(b, st))
		}
		t := f.vc.freshConst("closure", sFn)
		f.vc.assume(T(sBool, "(not (= %s 0))", t.S))
		cl := &Closure{Fn: x.Fn.(*ssa.Function), Bindings: binds, Term: t}
		f.vals[x] = cl
		f.closurePre(cl, st, reach, x.Pos())
	case *ssa.MakeMap:
		f.vals[x] = f.makeMap(x, st)
	case *ssa.MakeSlice:
		f.vals[x] = f.makeSlice(x, st, reach)
	case *ssa.MakeChan:
		r := f.allocRef(st, "chan")
		f.vals[x] = r
	case *ssa.MapUpdate:
		f.mapUpdate(x, st, reach)
	case *ssa.Range:
		f.vals[x] = f.term(x.X, st)
		if mt, isMap := x.X.Type().Underlying().(*types.Map); isMap {
			ks := f.vc.sorts.sortOf(mt.Key())
			st.set(f.rangeKey(x, ks), T(fmt.Sprintf("(Array %s Bool)", ks), "((as const (Array %s Bool)) false)", ks))
		}
	case *ssa.Next:
		f.execNext(x, st)
	case *ssa.Slice:
		f.vals[x] = f.execSlice(x, st, reach)
	case *ssa.SliceToArrayPointer:
		f.unsupported(x, "slice to array pointer")
	case *ssa.Store:
		addr := f.value(x.Addr, st)
		val := f.term(x.Val, st)
		switch a := addr.(type) {
		case *Addr:
			f.store(a, val, st, reach, x.Pos())
		case Term:
			f.safety("nil", "store:"+shortVal(x.Addr), reach, T(sBool, "(not (= %s 0))", a.S), x.Pos())
			elem := x.Addr.Type().Underlying().(*types.Pointer).Elem()
			if _, isStruct := elem.Underlying().(*types.Struct); isStruct {
				f.storeStruct(a, elem, val, st, reach, x.Pos())
			} else {
				f.store(f.derefAddr(a, elem), val, st, reach, x.Pos())
			}
		}
	case *ssa.TypeAssert:
		f.typeAssert(x, st, reach)
	case *ssa.Return:
		f.execReturn(x, st, reach)
	case *ssa.RunDefers:
		f.runDefers(st, reach)
	case *ssa.Defer:
		st.defers = append(append([]deferred{}, st.defers...), deferred{call: x, frame: f})
		// evaluate arguments now (Go semantics); cache them
		var args []Value
		for _, a := range x.Call.Args {
			args = append(args, f.value(a, st))
		}
		f.deferArgs()[x] = args
		if !x.Call.IsInvoke() {
			if _, ok := x.Call.Value.(*ssa.Function); !ok {
				if _, isB := x.Call.Value.(*ssa.Builtin); !isB {
					f.deferFn()[x] = f.value(x.Call.Value, st)
				}
			}
		} else {
			f.deferFn()[x] = f.value(x.Call.Value, st)
		}
	case *ssa.Go:
		f.vc.note("%s: go statement not modelled", funcKey(f.fn))
	case *ssa.Send:
		f.vc.note("%s: channel send not modelled", funcKey(f.fn))
	case *ssa.Select:
		// sequential view: which case fires and what is received are unconstrained; the
		// heap is what this goroutine left it (other goroutines are outside the model)
		f.vc.note("%s: select: chosen case and received values unconstrained (sequential view)", funcKey(f.fn))
		f.vals[x] = f.havocValue(x.Type(), x.Name())
	case *ssa.Panic:
		f.execPanic(x, st, reach)
	default:
		f.unsupported(ins, fmt.Sprintf("%T", ins))
	}
}

// callInv emits the `callinv` obligations of the function under verification
// after a call (also a call made by an inlined callee): the ghost-state
// invariant holds at every point between two external effects.
func (f *Frame) callInv(c *ssa.CallCommon, st *State, reach Term, pos token.Pos) {
	con := f.vc.con
	if con == nil || len(con.CallInvs) == 0 || f.vc.topEnv == nil {
		return
	}
	if _, isB := c.Value.(*ssa.Builtin); isB {
		return
	}
	what := "dynamic"
	if callee := c.StaticCallee(); callee != nil {
		what = funcKey(callee)
	} else if c.IsInvoke() {
		what = c.Method.Name()
	}
	env := f.vc.topEnv.clone()
	env.st = st
	for i, cl := range con.CallInvs {
		t, err := env.trBool(cl.Text)
		if err != nil {
			f.vc.failed = fmt.Errorf("%s: callinv %q: %v", cl.Line, cl.Text, err)
			return
		}
		name := fmt.Sprintf("callinv#%s@%s%s", clauseName(cl, i), f.prefix, f.vc.site("after:"+what))
		f.vc.oblige("callinv", name, mergeTags(cl.Tags, f.tags), reach, t, f.pos(pos)).Desc = cl.Text
		f.vc.assume(tImp(reach, t))
	}
}

var deferArgsTab = map[*Frame]map[*ssa.Defer][]Value{}
var deferFnTab = map[*Frame]map[*ssa.Defer]Value{}

func (f *Frame) deferArgs() map[*ssa.Defer][]Value {
	if deferArgsTab[f] == nil {
		deferArgsTab[f] = map[*ssa.Defer][]Value{}
	}
	return deferArgsTab[f]
}
func (f *Frame) deferFn() map[*ssa.Defer]Value {
	if deferFnTab[f] == nil {
		deferFnTab[f] = map[*ssa.Defer]Value{}
	}
	return deferFnTab[f]
}

func shortVal(v ssa.Value) string {
	switch x := v.(type) {
	case *ssa.Parameter:
		return x.Name()
	case *ssa.Const:
		if x.Value == nil {
			return "nil"
		}
		s := x.Value.ExactString()
		if len(s) > 24 {
			s = s[:24]
		}
		return s
	case *ssa.Phi:
		if x.Comment != "" {
			return x.Comment
		}
	case *ssa.FieldAddr:
		st := x.X.Type().Underlying().(*types.Pointer).Elem().Underlying().(*types.Struct)
		return shortVal(x.X) + "." + st.Field(x.Field).Name()
	case *ssa.UnOp:
		if x.Op == token.MUL {
			return shortVal(x.X)
		}
		return x.Op.String() + shortVal(x.X)
	case *ssa.Field:
		st := x.X.Type().Underlying().(*types.Struct)
		return shortVal(x.X) + "." + st.Field(x.Field).Name()
	case *ssa.Call:
		var as []string
		for _, a := range x.Call.Args {
			s := shortVal(a)
			if len(s) > 48 {
				s = s[:48]
			}
			as = append(as, s)
		}
		if c := x.Call.StaticCallee(); c != nil {
			return c.Name() + "(" + strings.Join(as, ",") + ")"
		}
		if x.Call.IsInvoke() {
			return shortVal(x.Call.Value) + "." + x.Call.Method.Name() + "(" + strings.Join(as, ",") + ")"
		}
		return "call(" + strings.Join(as, ",") + ")"
	case *ssa.TypeAssert:
		return shortVal(x.X) + ".(" + typeKey(x.AssertedType) + ")"
	case *ssa.MakeInterface:
		return shortVal(x.X)
	case *ssa.Extract:
		if _, isTA := x.Tuple.(*ssa.TypeAssert); isTA && x.Index == 0 {
			return shortVal(x.Tuple)
		}
		return shortVal(x.Tuple) + "#" + fmt.Sprint(x.Index)
	case *ssa.IndexAddr:
		return shortVal(x.X) + "[]"
	case *ssa.Index:
		return shortVal(x.X) + "[]"
	case *ssa.Slice:
		return shortVal(x.X) + "[:]"
	case *ssa.Alloc:
		if x.Comment != "" {
			return x.Comment
		}
	case *ssa.BinOp:
		return "(" + shortVal(x.X) + x.Op.String() + shortVal(x.Y) + ")"
	case *ssa.Convert:
		return shortVal(x.X)
	case *ssa.ChangeType:
		return shortVal(x.X)
	case *ssa.FreeVar:
		return x.Name()
	case *ssa.Global:
		return x.Name()
	case *ssa.Lookup:
		return shortVal(x.X) + "[k]"
	}
	return "_"
}

func (f *Frame) allocRef(st *State, hint string) Term {
	r := f.vc.freshConst(hint, sRef)
	f.vc.assume(T(sBool, "(and (not (= %s 0)) (= (alloc %s) %s))", r.S, r.S, st.now.S))
	nn := f.vc.define("now", T(sInt, "(+ %s 1)", st.now.S))
	st.now = nn
	return r
}

func (f *Frame) execAlloc(x *ssa.Alloc, st *State) {
	elem := x.Type().Underlying().(*types.Pointer).Elem()
	srt := f.vc.sorts.sortOf(elem)
	if !x.Heap {
		key := fmt.Sprintf("L:f%d:%s", f.fnum(), x.Name())
		f.vc.compSrt[key] = srt
		st.set(key, f.zeroOf(elem))
		f.vals[x] = &Addr{Kind: aCell, Key: key, Sort: srt, Typ: elem}
		return
	}
	r := f.allocRef(st, "new")
	if stt, ok := elem.Underlying().(*types.Struct); ok {
		ssort := srt
		for i := 0; i < stt.NumFields(); i++ {
			fs := f.vc.sorts.sortOf(stt.Field(i).Type())
			key := f.compKey("F:", ssort+"."+stt.Field(i).Name(), fs)
			old := st.get(key)
			st.set(key, f.vc.storeTerm(key, old, r, f.zeroOf(stt.Field(i).Type())))
		}
	} else {
		key := f.compKey("D:", sortTag(srt), srt)
		old := st.get(key)
		st.set(key, f.vc.storeTerm(key, old, r, f.zeroOf(elem)))
	}
	f.vals[x] = r
}

// loadStruct reads a whole struct value through a Ref.
func (f *Frame) loadStruct(p Term, t types.Type, st *State) Term {
	stt := t.Underlying().(*types.Struct)
	ssort := f.vc.sorts.sortOf(t)
	if stt.NumFields() == 0 {
		return Term{"mk." + ssort, ssort}
	}
	var parts []string
	for i := 0; i < stt.NumFields(); i++ {
		fs := f.vc.sorts.sortOf(stt.Field(i).Type())
		key := f.compKey("F:", ssort+"."+stt.Field(i).Name(), fs)
		parts = append(parts, f.vc.sel(st.get(key), p, fs).S)
	}
	return T(ssort, "(mk.%s %s)", ssort, strings.Join(parts, " "))
}

func (f *Frame) storeStruct(p Term, t types.Type, v Term, st *State, reach Term, pos token.Pos) {
	stt := t.Underlying().(*types.Struct)
	ssort := f.vc.sorts.sortOf(t)
	for i := 0; i < stt.NumFields(); i++ {
		fs := f.vc.sorts.sortOf(stt.Field(i).Type())
		key := f.compKey("F:", ssort+"."+stt.Field(i).Name(), fs)
		f.frameCheck(key, p, st, reach, pos)
		old := st.get(key)
		st.set(key, f.vc.storeTerm(key, old, p, T(fs, "(%s.%s %s)", ssort, smtName(stt.Field(i).Name()), v.S)))
	}
}

func (f *Frame) execPanic(x *ssa.Panic, st *State, reach Term) {
	msg := ""
	if mi, ok := x.X.(*ssa.MakeInterface); ok {
		if c, ok := mi.X.(*ssa.Const); ok && c.Value != nil {
			msg = c.Value.ExactString()
		} else if call, ok := mi.X.(*ssa.Call); ok {
			if len(call.Call.Args) > 0 {
				if c, ok := call.Call.Args[0].(*ssa.Const); ok && c.Value != nil {
					msg = c.Value.ExactString()
				}
			}
		}
	}
	if f.vc.w.documentedPanic(msg) {
		f.vc.note("%s: documented panic %s excluded", funcKey(f.fn), msg)
		return
	}
	desc := "panic"
	if msg != "" {
		desc = "panic:" + strings.Trim(msg, "\"")
		if len(desc) > 40 {
			desc = desc[:40]
		}
	}
	name := "safe/panic@" + f.prefix + f.vc.site(desc)
	tags := append([]string{"C20"}, f.tags...)
	f.vc.oblige("safe/panic", name, tags, reach, tFalse(), f.pos(x.Pos()))
	f.vc.assume(tNot(reach))
}

func (w *World) documentedPanic(msg string) bool {
	for _, p := range []string{"lungo: unsupported", "lungo: missing", "lungo: not implemented", "lungo: expected", "semaphore full"} {
		if strings.Contains(msg, p) {
			return true
		}
	}
	return false
}
