package main

import (
	"fmt"
	"go/token"
	"go/types"
	"regexp"
	"strings"

	"golang.org/x/tools/go/ssa"
)

func mustRe(s string) *regexp.Regexp { return regexp.MustCompile(s) }

type frameTarget struct {
	all, whole bool
	key        string
	ref        Term
	since      *Term
}

// extra VC fields live here to keep state.go small
type vcExtra struct{}

func (w *World) newVC(fn *ssa.Function, con *Contract) *VC {
	mode := ModeInt
	if con != nil && con.ModeSet {
		mode = con.Mode
	}
	vc := &VC{w: w, fn: fn, con: con, mode: mode, sorts: newSorts(mode), compSrt: map[string]string{}, strLits: map[string]string{},
		declFns: map[string]bool{}, inlined: map[string]bool{}, assumed: map[string]bool{}, assumedWF: map[string]bool{}, uses: map[string]bool{}, siteN: map[string]int{},
		fname: funcKey(fn), lenSeen: map[string]bool{}}
	if con != nil {
		for _, u := range con.Uses {
			vc.uses[u] = true
		}
		if v, ok := con.Opts["slices"]; ok {
			vc.sorts.heapAll = v == "heap"
		}
	}
	return vc
}

func (w *World) sameSCC(a, b *ssa.Function) bool {
	if a == nil || b == nil {
		return false
	}
	if a == b {
		return true
	}
	// both have a decreases clause and live in the same package: treat as mutually recursive
	return a.Pkg == b.Pkg
}

// paramEVs returns the environment entries for the parameters of fn given argument values.
func paramEVs(fn *ssa.Function, sig *types.Signature, args []Value, invoke bool) map[string]EV {
	vars := map[string]EV{}
	if fn != nil && len(fn.Params) == len(args) && fn.Params != nil {
		off := 0
		if fn.Signature.Recv() != nil {
			off = 1
		}
		for i, p := range fn.Params {
			vars[p.Name()] = EV{args[i], p.Type()}
			if i < off {
				vars["recv"] = EV{args[i], p.Type()}
			} else {
				vars[fmt.Sprintf("arg%d", i-off)] = EV{args[i], p.Type()}
			}
		}
		return vars
	}
	i := 0
	if sig.Recv() != nil || invoke {
		if i < len(args) {
			var rt types.Type
			name := "recv"
			if sig.Recv() != nil {
				rt = sig.Recv().Type()
				if sig.Recv().Name() != "" {
					name = sig.Recv().Name()
				}
			}
			vars[name] = EV{args[i], rt}
			vars["recv"] = EV{args[i], rt}
			i++
		}
	}
	for j := 0; j < sig.Params().Len() && i < len(args); j++ {
		p := sig.Params().At(j)
		if p.Name() != "" {
			vars[p.Name()] = EV{args[i], p.Type()}
		}
		vars[fmt.Sprintf("arg%d", j)] = EV{args[i], p.Type()}
		i++
	}
	return vars
}

func (f *Frame) calleeEnv(con *Contract, callee *ssa.Function, sig *types.Signature, args []Value, invoke bool) *Env {
	env := &Env{f: f, vars: paramEVs(callee, sig, args, invoke)}
	if callee != nil && callee.Pkg != nil {
		env.pkg = callee.Pkg.Pkg
	} else if callee != nil && callee.Object() != nil {
		env.pkg = callee.Object().Pkg()
	}
	// free variables of closures are visible by name
	if callee != nil {
		for i, fv := range callee.FreeVars {
			_ = i
			_ = fv
		}
	}
	return env
}

func (e *Env) setResults(sig *types.Signature, results Tuple, rtypes []types.Type) {
	for i, r := range results {
		ev := EV{r, rtypes[i]}
		e.vars[fmt.Sprintf("result%d", i)] = ev
		if i == 0 {
			e.vars["result"] = ev
		}
		if sig.Results() != nil && sig.Results().At(i).Name() != "" && sig.Results().At(i).Name() != "_" {
			e.vars[sig.Results().At(i).Name()] = ev
		}
		if isErrorType(rtypes[i]) && i == len(results)-1 {
			if _, ok := e.vars["err"]; !ok {
				e.vars["err"] = ev
			}
		}
	}
}

func (f *Frame) intrinsic(key string, callee *ssa.Function, args []Value, resT types.Type, st *State, reach Term, pos token.Pos) (Value, bool) {
	return nil, false
}

// callParamContract handles calls through a function-typed parameter that has a
// parameter contract ("opt param.<name> = pure") in the contract of the function under verification.
func (f *Frame) callParamContract(c *ssa.CallCommon, args []Value, resT types.Type, st *State, reach Term, pos token.Pos) (Value, bool) {
	p, ok := c.Value.(*ssa.Parameter)
	if !ok || f.vc.con == nil {
		if fv, ok2 := c.Value.(*ssa.FreeVar); ok2 && f.vc.con != nil {
			if f.vc.con.Opts["param."+fv.Name()] == "pure" {
				return f.pureParamCall(fv.Name(), f.term(c.Value, st), args, resT), true
			}
		}
		return nil, false
	}
	if f.vc.con.Opts["param."+p.Name()] == "pure" {
		return f.pureParamCall(p.Name(), f.term(c.Value, st), args, resT), true
	}
	return nil, false
}

// pureParamCall: the result of calling a pure function parameter is an
// uninterpreted function of the function value and the arguments.
func (f *Frame) pureParamCall(name string, fv Term, args []Value, resT types.Type) Value {
	var rts []types.Type
	if tup, ok := resT.(*types.Tuple); ok {
		for i := 0; i < tup.Len(); i++ {
			rts = append(rts, tup.At(i).Type())
		}
	} else if resT != nil {
		rts = []types.Type{resT}
	}
	var out Tuple
	for i, rt := range rts {
		fn := fmt.Sprintf("app.%s.%d", smtName(name), i)
		sorts := []string{sFn}
		ts := []string{fv.S}
		for _, a := range args {
			t := f.valueTerm(a)
			sorts = append(sorts, t.Sort)
			ts = append(ts, t.S)
		}
		rs := f.vc.sorts.sortOf(rt)
		f.vc.declareFunOnce(fn, sorts, rs)
		out = append(out, T(rs, "(%s %s)", fn, strings.Join(ts, " ")))
	}
	switch len(out) {
	case 0:
		return Tuple{}
	case 1:
		return out[0]
	}
	return out
}

// ---------------------------------------------------------------------------
// verifying one function against its contract

func (w *World) verifyFunction(fn *ssa.Function, con *Contract) (vc *VC) {
	vc = w.newVC(fn, con)
	defer func() {
		if r := recover(); r != nil {
			if vc.failed == nil {
				vc.failed = fmt.Errorf("%s: %v", funcKey(fn), r)
			}
		}
		// struct sorts that the text of a used spec module mentions
		for name := range vc.uses {
			if m := w.specs[name]; m != nil {
				for _, sf := range m.Forms {
					vc.ensureSortsIn(sf.Text)
				}
			}
		}
	}()
	if fn.Blocks == nil {
		vc.failed = fmt.Errorf("%s has no body", funcKey(fn))
		return vc
	}
	f := &Frame{vc: vc, fn: fn, con: con, top: true, names: map[string][]ssa.Value{}}
	if con != nil {
		f.tags = con.Tags
	}
	st := vc.entryState()
	// parameters
	var params []string
	for _, p := range fn.Params {
		v := f.havocValue(p.Type(), "in."+p.Name()).(Term)
		f.readFacts(v, p.Type(), st)
		f.args = append(f.args, v)
		params = append(params, v.S)
	}
	for _, fv := range fn.FreeVars {
		// free variables are pointers to captured variables (or captured values)
		if _, isPtr := fv.Type().Underlying().(*types.Pointer); isPtr {
			elem := derefType(fv.Type())
			srt := vc.sorts.sortOf(elem)
			key := fmt.Sprintf("L:free:%s", fv.Name())
			vc.compSrt[key] = srt
			f.bind = append(f.bind, &Addr{Kind: aCell, Key: key, Sort: srt, Typ: elem})
		} else {
			v := f.havocValue(fv.Type(), "fv."+fv.Name()).(Term)
			f.readFacts(v, fv.Type(), st)
			f.bind = append(f.bind, v)
		}
	}
	if con == nil || con.Opts["inputs"] == "wf" {
		// zero-annotation sweep: the inputs are well-formed (C20: "nil arguments are
		// excluded", "composed of the supported BSON types")
		vc.sweep = true
		for i, p := range fn.Params {
			f.assumeInputWF(f.args[i].(Term), p.Type())
		}
		for i, fv := range fn.FreeVars {
			if t, ok := f.bind[i].(Term); ok {
				f.assumeInputWF(t, fv.Type())
			}
		}
	}
	env := &Env{f: f, vars: paramEVs(fn, fn.Signature, f.args, false), st: st, old: st}
	if fn.Pkg != nil {
		env.pkg = fn.Pkg.Pkg
	} else if fn.Parent() != nil && fn.Parent().Pkg != nil {
		env.pkg = fn.Parent().Pkg.Pkg
	}
	for i, fv := range fn.FreeVars {
		env.vars[fv.Name()] = EV{f.bind[i], derefType(fv.Type())}
	}
	vc.topEnv = env
	vc.params = params
	if env.pkg != nil {
		for _, g := range parsedGlobals[shortPkg(env.pkg.Path())] {
			t, err := env.trBool(g)
			if err != nil {
				vc.failed = fmt.Errorf("global %q: %v", g, err)
				return vc
			}
			vc.assume(t)
		}
	}
	if con != nil {
		for _, l := range con.Lets {
			text := l[1]
			env.vars[l[0]] = EV{V: letFn(func(e *Env) (Term, types.Type) {
				t, ty, err := e.trTyped(text, "")
				if err != nil {
					panic(err)
				}
				return t, ty
			})}
		}
		for _, r := range con.Requires {
			t, err := env.trBool(r.Text)
			if err != nil {
				vc.failed = fmt.Errorf("%s: requires %q: %v", r.Line, r.Text, err)
				return vc
			}
			vc.assume(t)
		}
		// frame targets
		if con.ModSet {
			for _, m := range con.Modifies {
				tgs, err := env.modTargets(m)
				if err != nil {
					vc.failed = fmt.Errorf("%s: modifies %q: %v", con.File, m, err)
					return vc
				}
				for _, tg := range tgs {
					vc.frameTargets = append(vc.frameTargets, frameTarget{all: tg.all, whole: tg.whole, key: tg.key, ref: tg.ref, since: tg.since})
				}
			}
			vc.frameTags = con.Tags
			if tags, ok := con.Opts["frametags"]; ok {
				vc.frameTags = strings.FieldsFunc(tags, func(r rune) bool { return r == ',' || r == ' ' })
			}
		}
	}
	vc.nreq = len(vc.items)
	f.run(st, tTrue())
	if vc.failed != nil {
		return vc
	}
	// postconditions at every return
	if con != nil {
		retNames := f.returnNames()
		for ri, r := range f.rets {
			renv := env.clone()
			renv.st = r.st
			renv.old = st
			renv.oldEnv = env
			var rts []types.Type
			var rvals Tuple
			for i, v := range r.vals {
				rts = append(rts, fn.Signature.Results().At(i).Type())
				rvals = append(rvals, f.valueTerm(v))
			}
			renv.setResults(fn.Signature, rvals, rts)
			if r.ins != nil {
				renv.lookup = f.localLookupAt(r.st, r.ins.Block())
			} else {
				renv.lookup = f.localLookup(r.st)
			}
			for i, e := range con.Ensures {
				if hasTag(e.Tags, "ghostdef") {
					// the definition of a ghost history variable in terms of this call's outcome:
					// callers assume it; there is nothing in the body to check it against
					// (the body does not, and cannot, assign ghost state)
					if msg := ghostDefShape(e.Text, shortPkg(fn.Pkg.Pkg.Path())); msg != "" {
						vc.failed = fmt.Errorf("%s: ghostdef clause %q: %s", e.Line, e.Text, msg)
						return vc
					}
					continue
				}
				t, err := renv.trBool(e.Text)
				if err != nil {
					vc.failed = fmt.Errorf("%s: ensures %q: %v", e.Line, e.Text, err)
					return vc
				}
				name := fmt.Sprintf("post#%s@%s", clauseName(e, i), retNames[ri])
				o := vc.oblige("post", name, e.Tags, r.cond, t, f.pos(r.pos))
				o.Desc = e.Text
				for _, rv := range rvals {
					o.RetTerms = append(o.RetTerms, rv.(Term).S)
				}
				if hasTag(e.Tags, "lemma") {
					// an auxiliary postcondition: proved like any other, and then
					// available to the clauses that follow it at this return point
					vc.assume(tImp(r.cond, t))
				}
			}
		}
		if len(f.rets) == 0 && len(con.Ensures) > 0 {
			vc.note("%s: no return point reached; postconditions hold vacuously", funcKey(fn))
		}
	}
	// sweep: what the callers assume of the results (wfTerm) is an obligation here
	if vc.sweep && con == nil {
		retNames := f.returnNames()
		for ri, r := range f.rets {
			for i, v := range r.vals {
				rt := fn.Signature.Results().At(i).Type()
				t := f.wfTerm(f.valueTerm(v), rt, false)
				if t.S == "true" {
					continue
				}
				o := vc.oblige("post", fmt.Sprintf("post#wf%d@%s", i, retNames[ri]), []string{"C20"}, r.cond, t, f.pos(r.pos))
				o.Desc = "the returned value consists of supported BSON types"
			}
		}
	}
	// cover: some return is reachable under the preconditions
	var conds []Term
	for _, r := range f.rets {
		conds = append(conds, r.cond)
	}
	if len(conds) > 0 {
		o := &Oblig{Name: vc.fname + "/cover", Kind: "cover", Goal: tOr(conds...).S, NItems: len(vc.items), Func: vc.fname, Cover: true, vc: vc}
		vc.obligs = append(vc.obligs, o)
	}
	return vc
}

// wfTerm is the well-formedness fact the sweep assumes of an input (and of a
// value that comes back from a callee without contract): pointers, maps and
// function values are not nil; interface{} values and the elements of bson.D /
// bson.A are supported BSON values all the way down.
func (f *Frame) wfTerm(v Term, t types.Type, nonNil bool) Term {
	switch v.Sort {
	case sRef, sFn:
		if nonNil {
			return T(sBool, "(not (= %s 0))", v.S)
		}
	case sVal:
		f.vc.uses["wf"] = true
		return T(sBool, "(wfVal %s)", v.S)
	case "Seq_Val":
		f.vc.uses["wf"] = true
		return T(sBool, "(wfVal (VArr %s))", v.S)
	case "Seq_S_primitive_E":
		f.vc.uses["wf"] = true
		return T(sBool, "(wfVal (VDoc %s))", v.S)
	case "S_primitive_E":
		f.vc.uses["wf"] = true
		return T(sBool, "(wfVal (S_primitive_E.Value %s))", v.S)
	}
	return tTrue()
}

func (f *Frame) assumeInputWF(v Term, t types.Type) {
	f.vc.assume(f.wfTerm(v, t, true))
}

// localLookup resolves source-level names of locals through the recorded debug refs.
func (f *Frame) localLookup(st *State) func(name string) (EV, bool) {
	return f.localLookupAt(st, nil)
}

func (f *Frame) recordName(name string, v ssa.Value, b *ssa.BasicBlock) {
	if f.nameAt == nil {
		f.nameAt = map[string][]*ssa.BasicBlock{}
	}
	for len(f.nameAt[name]) < len(f.names[name]) {
		f.nameAt[name] = append(f.nameAt[name], nil)
	}
	f.names[name] = append(f.names[name], v)
	f.nameAt[name] = append(f.nameAt[name], b)
}

// localLookupAt: the meaning of a source name at the entry of block at (or, when at
// is the block of a return, at its end): the latest recorded reference in a block
// that dominates at. Blocks are executed in an order that does not follow the
// control flow of nested loops (the code after an inner loop may come first), so
// the latest reference recorded so far is not necessarily one that reaches at.
func (f *Frame) localLookupAt(st *State, at *ssa.BasicBlock) func(name string) (EV, bool) {
	return func(name string) (EV, bool) {
		vs := f.names[name]
		for i := len(vs) - 1; i >= 0; i-- {
			v := vs[i]
			if at != nil && i < len(f.nameAt[name]) {
				if nb := f.nameAt[name][i]; nb != nil && nb.Parent() == at.Parent() && !nb.Dominates(at) {
					continue
				}
			}
			val, ok := f.vals[v]
			if !ok {
				if _, isC := v.(*ssa.Const); isC {
					return EV{f.constTerm(v.(*ssa.Const)), v.Type()}, true
				}
				continue
			}
			if a, isA := val.(*Addr); isA {
				return EV{a, a.Typ}, true
			}
			return EV{f.value(v, st), v.Type()}, true
		}
		if at != nil && len(vs) > 0 {
			// no reference dominates this point (the variable is only assigned on other
			// paths): the clause can only mention it under a condition that excludes this
			// path; any recorded meaning will do
			return f.localLookupAt(st, nil)(name)
		}
		// SSA register names (used by generated invariants)
		if len(name) > 1 && name[0] == 't' && name[1] >= '0' && name[1] <= '9' {
			for v, val := range f.vals {
				if v.Name() == name {
					if a, isA := val.(*Addr); isA {
						return EV{a, a.Typ}, true
					}
					return EV{f.value(v, st), v.Type()}, true
				}
			}
		}
		for i, p := range f.fn.Params {
			if p.Name() == name && i < len(f.args) {
				return EV{f.args[i], p.Type()}, true
			}
		}
		return EV{}, false
	}
}

// returnNames gives every return point a name derived from what it returns
// (not from its position in the file).
func (f *Frame) returnNames() []string {
	seen := map[string]int{}
	var out []string
	for _, r := range f.rets {
		var parts []string
		for _, ins := range f.fn.Blocks {
			_ = ins
		}
		if r.ins != nil {
			for _, v := range r.ins.Results {
				s := shortVal(v)
				if len(s) > 70 {
					s = s[:70]
				}
				parts = append(parts, s)
			}
		}
		d := "ret:" + strings.Join(parts, ",")
		n := seen[d]
		seen[d] = n + 1
		out = append(out, fmt.Sprintf("%s#%d", d, n))
	}
	return out
}
