;; needs: base
; deep well-formedness of BSON values (only supported types, all the way down) and a size measure
(declare-fun wfVal (Val) Bool)
(declare-fun size (Val) Int)
(assert (forall ((v Val)) (! (= (wfVal v) (and (wf1 v)
   (=> ((_ is VArr) v) (forall ((i Int)) (! (=> (and (<= 0 i) (< i (len.Seq_Val (arr v)))) (wfVal (at.Seq_Val (arr v) i))) :pattern ((at.Seq_Val (arr v) i)))))
   (=> ((_ is VDoc) v) (forall ((i Int)) (! (=> (and (<= 0 i) (< i (len.Seq_S_primitive_E (doc v)))) (wfVal (S_primitive_E.Value (at.Seq_S_primitive_E (doc v) i)))) :pattern ((at.Seq_S_primitive_E (doc v) i)))))))
   :pattern ((wfVal v)))))
(assert (forall ((v Val)) (! (>= (size v) 1) :pattern ((size v)))))
(assert (forall ((v Val) (i Int)) (! (=> (and ((_ is VArr) v) (<= 0 i) (< i (len.Seq_Val (arr v)))) (< (size (at.Seq_Val (arr v) i)) (size v)))
   :pattern ((size v) (at.Seq_Val (arr v) i)) :pattern ((size (at.Seq_Val (arr v) i))))))
(assert (forall ((v Val) (i Int)) (! (=> (and ((_ is VDoc) v) (<= 0 i) (< i (len.Seq_S_primitive_E (doc v)))) (< (size (S_primitive_E.Value (at.Seq_S_primitive_E (doc v) i))) (size v)))
   :pattern ((size v) (at.Seq_S_primitive_E (doc v) i)) :pattern ((size (S_primitive_E.Value (at.Seq_S_primitive_E (doc v) i)))))))
