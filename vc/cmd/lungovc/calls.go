package main

import (
	"fmt"
	"go/token"
	"go/types"
	"strings"

	"golang.org/x/tools/go/ssa"
)

const maxInlineInstrs = 120
const maxInlineDepth = 3

func (f *Frame) call(ins ssa.Instruction, c *ssa.CallCommon, st *State, reach Term) Value {
	var resT types.Type
	if v, ok := ins.(ssa.Value); ok {
		resT = v.Type()
	} else {
		resT = c.Signature().Results()
	}
	if b, ok := c.Value.(*ssa.Builtin); ok {
		var args []Value
		for _, a := range c.Args {
			args = append(args, f.value(a, st))
		}
		return f.builtin(b, c, args, resT, st, reach, ins.Pos())
	}
	if c.IsInvoke() {
		recv := f.term(c.Value, st)
		var args []Value
		args = append(args, recv)
		for _, a := range c.Args {
			args = append(args, f.value(a, st))
		}
		name := "iface:" + typeKey(c.Value.Type()) + "." + c.Method.Name()
		if con := f.vc.w.contracts[name]; con != nil {
			return f.callByContract(con, nil, c.Signature(), name, args, resT, st, reach, ins.Pos(), true)
		}
		f.safety("nil", "invoke:"+shortVal(c.Value)+"."+c.Method.Name(), reach, f.notNil(recv), ins.Pos())
		return f.callUnknown(name, resT, st, knownPureMethod(c.Method.Name(), c.Value.Type()))
	}
	var args []Value
	for _, a := range c.Args {
		args = append(args, f.value(a, st))
	}
	callee := c.StaticCallee()
	var binds []Value
	if callee == nil {
		// call of a closure value we created ourselves?
		if cl, ok := f.value(c.Value, st).(*Closure); ok {
			callee = cl.Fn
			binds = cl.Bindings
		}
	} else if mc, ok := c.Value.(*ssa.MakeClosure); ok {
		for _, b := range mc.Bindings {
			binds = append(binds, f.value(b, st))
		}
	}
	if callee == nil {
		fv := f.term(c.Value, st)
		switch c.Value.(type) {
		case *ssa.Parameter, *ssa.FreeVar:
			// function-typed arguments are assumed non-nil (nil arguments are outside the properties)
		default:
			f.safety("nil", "callfn:"+shortVal(c.Value), reach, f.notNil(fv), ins.Pos())
		}
		// a callback may panic: the function is then left through its deferred calls
		f.panicExit(st, reach, ins.Pos(), shortVal(c.Value))
		// parameter contract?
		if r, ok := f.callParamContract(c, args, resT, st, reach, ins.Pos()); ok {
			return r
		}
		return f.callUnknown("dynamic call "+shortVal(c.Value), resT, st, false)
	}
	return f.callStatic(callee, binds, args, resT, st, reach, ins.Pos())
}

// panicExit checks the `panics` clauses of the function under verification on
// the exit that is taken when the callback called at this point panics: the
// deferred calls registered so far run (on a copy of the state), then the
// clauses must hold.
func (f *Frame) panicExit(st *State, reach Term, pos token.Pos, what string) {
	con := f.vc.con
	if !f.top || con == nil || len(con.Panics) == 0 || f.vc.topEnv == nil {
		return
	}
	cur := new(State)
	*cur = *st
	cur = cur.derive()
	f.runDefers(cur, reach)
	env := f.vc.topEnv.clone()
	env.st = cur
	for i, cl := range con.Panics {
		t, err := env.trBool(cl.Text)
		if err != nil {
			f.vc.failed = fmt.Errorf("%s: panics %q: %v", cl.Line, cl.Text, err)
			return
		}
		name := fmt.Sprintf("panics#%s@%s", clauseName(cl, i), f.vc.site("callback:"+what))
		f.vc.oblige("panics", name, mergeTags(cl.Tags, f.tags), reach, t, f.pos(pos)).Desc = cl.Text
	}
}

func (f *Frame) notNil(t Term) Term {
	switch t.Sort {
	case sVal:
		return T(sBool, "(not (= %s VNil))", t.S)
	case sInt, sRef, sErr, sIfc, sFn:
		return T(sBool, "(not (= %s 0))", t.S)
	}
	return tTrue()
}

func knownPureMethod(name string, recv types.Type) bool {
	if name == "Error" || name == "String" {
		return true
	}
	return false
}

func (f *Frame) callStatic(callee *ssa.Function, binds []Value, args []Value, resT types.Type, st *State, reach Term, pos token.Pos) Value {
	key := funcKey(callee)
	if r, ok := f.intrinsic(key, callee, args, resT, st, reach, pos); ok {
		return r
	}
	con := f.vc.w.contracts[key]
	if con == nil && callee.Origin() != nil {
		con = f.vc.w.contracts[funcKey(callee.Origin())]
	}
	if con != nil && !(f.top && callee == f.vc.fn && false) {
		return f.callByContract(con, callee, callee.Signature, key, args, resT, st, reach, pos, false)
	}
	// inline small, loop-free, non-recursive repo functions
	if callee.Blocks != nil && f.canInline(callee) {
		return f.inline(callee, binds, args, resT, st, reach)
	}
	res := f.callUnknown(key, resT, st, f.vc.w.knownPure(key))
	if callee.Pkg != nil && strings.HasPrefix(callee.Pkg.Pkg.Path(), repoModule) && sweepScope(key) {
		// a repo function without contract: its own sweep proves post#wf (verify.go),
		// so the caller may assume its results are well-formed BSON values
		f.vc.assumedWF[key] = true
		sig := callee.Signature.Results()
		switch r := res.(type) {
		case Term:
			f.vc.assume(tImp(reach, f.wfTerm(r, sig.At(0).Type(), false)))
		case Tuple:
			for i, x := range r {
				if t, ok := x.(Term); ok && i < sig.Len() {
					f.vc.assume(tImp(reach, f.wfTerm(t, sig.At(i).Type(), false)))
				}
			}
		}
	}
	return res
}

func (f *Frame) canInline(callee *ssa.Function) bool {
	if f.depth >= maxInlineDepth {
		return false
	}
	if callee.Pkg == nil || !strings.HasPrefix(callee.Pkg.Pkg.Path(), repoModule) {
		if callee.Parent() == nil {
			return false
		}
	}
	n := 0
	for _, b := range callee.Blocks {
		n += len(b.Instrs)
		for _, s := range b.Succs {
			if isBackEdge(b, s) {
				return false
			}
		}
		for _, ins := range b.Instrs {
			if c, ok := ins.(*ssa.Call); ok {
				if c.Call.StaticCallee() == callee {
					return false
				}
			}
			switch ins.(type) {
			case *ssa.Defer, *ssa.Go, *ssa.Select:
				return false
			}
		}
	}
	for g := f; g != nil; g = g.parentFrame() {
		if g.fn == callee {
			return false
		}
	}
	return n <= maxInlineInstrs
}

var frameParent = map[*Frame]*Frame{}

func (f *Frame) parentFrame() *Frame { return frameParent[f] }

func (f *Frame) inline(callee *ssa.Function, binds []Value, args []Value, resT types.Type, st *State, reach Term) Value {
	f.vc.inlined[funcKey(callee)] = true
	sub := &Frame{vc: f.vc, fn: callee, prefix: f.prefix + "inl:" + callee.Name() + "/", args: args, depth: f.depth + 1, bind: binds, names: map[string][]ssa.Value{}, tags: f.tags}
	frameParent[sub] = f
	// the callee continues from the caller's current state
	cur := new(State)
	*cur = *st
	sub.run(cur, reach)
	delete(frameParent, sub)
	if len(sub.rets) == 0 {
		// callee never returns (always panics)
		f.vc.assume(tNot(reach))
		return f.havocValue(resT, "noret")
	}
	var preds []*State
	var conds []Term
	for _, r := range sub.rets {
		preds = append(preds, r.st)
		conds = append(conds, r.cond)
	}
	merged := mergeStates(f.vc, preds, conds)
	// the caller continues only on paths where the callee returned
	f.vc.assume(tImp(reach, tOr(conds...)))
	*st = *merged
	nres := len(sub.rets[0].vals)
	var results Tuple
	for i := 0; i < nres; i++ {
		var acc Term
		for j := len(sub.rets) - 1; j >= 0; j-- {
			t := f.valueTerm(sub.rets[j].vals[i])
			if j == len(sub.rets)-1 {
				acc = t
			} else {
				acc = tIte(sub.rets[j].cond, t, acc)
			}
		}
		results = append(results, f.vc.define("ret."+callee.Name(), acc))
	}
	switch len(results) {
	case 0:
		return Tuple{}
	case 1:
		return results[0]
	}
	return results
}

func (f *Frame) valueTerm(v Value) Term {
	switch x := v.(type) {
	case Term:
		return x
	case *Addr:
		return f.addrToTerm(x)
	case *Closure:
		return x.Term
	}
	panic("valueTerm")
}

func (w *World) knownPure(key string) bool {
	for _, p := range []string{"fmt.Errorf", "fmt.Sprintf", "errors.New", "fmt.Sprint", "strconv.", "strings.", "math.", "bytes.", "sort.", "time.", "unicode.", "utf8.", "errors.", "reflect.", "regexp.", "sync.", "atomic.", "decimal.", "primitive.", "big.", "bsontype."} {
		if strings.HasPrefix(key, p) || strings.Contains(key, "/"+p) {
			return true
		}
	}
	return false
}

// callUnknown models a call about which nothing is known.
func (f *Frame) callUnknown(name string, resT types.Type, st *State, pure bool) Value {
	if !pure {
		f.vc.note("%s: call of %s has no contract (heap havocked, result unconstrained)", funcKey(f.fn), name)
		havocInPlace(st, name)
	} else {
		f.vc.note("%s: call of %s has no contract (result unconstrained; assumed not to write repo-visible memory)", funcKey(f.fn), name)
	}
	return f.resultHavoc(resT, st)
}

func (f *Frame) resultHavoc(resT types.Type, st *State) Value {
	if resT == nil {
		return Tuple{}
	}
	if tup, ok := resT.(*types.Tuple); ok {
		if tup.Len() == 0 {
			return Tuple{}
		}
		var out Tuple
		for i := 0; i < tup.Len(); i++ {
			v := f.havocValue(tup.At(i).Type(), "r")
			f.readFacts(v.(Term), tup.At(i).Type(), st)
			out = append(out, v)
		}
		if len(out) == 1 {
			return out[0]
		}
		return out
	}
	v := f.havocValue(resT, "r")
	if t, ok := v.(Term); ok {
		f.readFacts(t, resT, st)
	}
	return v
}

// ---------------------------------------------------------------------------
// call by contract

func (f *Frame) callByContract(con *Contract, callee *ssa.Function, sig *types.Signature, key string, args []Value, resT types.Type, st *State, reach Term, pos token.Pos, invoke bool) Value {
	f.vc.assumed[key] = true
	// (the spec modules a caller needs are those of the symbols its translated
	// clauses mention; the callee's own `uses` list is about the callee's body)
	env := f.calleeEnv(con, callee, sig, args, invoke)
	for _, l := range con.Lets {
		text := l[1]
		env.vars[l[0]] = EV{V: letFn(func(e *Env) (Term, types.Type) {
			t, ty, err := e.trTyped(text, "")
			if err != nil {
				panic(err)
			}
			return t, ty
		})}
	}
	pre := new(State)
	*pre = *st
	env.st = pre
	env.old = pre
	// closures handed to a pure function-typed parameter: what the callee's contract says
	// about apply(param, ...) is connected to the closure's own (verified) contract
	if callee != nil {
		for i, a := range args {
			if cl, ok := a.(*Closure); ok && i < len(callee.Params) && con.Opts["param."+callee.Params[i].Name()] == "pure" {
				f.closureAxiom(cl, callee.Params[i].Name(), pre, reach)
			}
		}
	}
	// preconditions
	for i, r := range con.Requires {
		t, err := env.trBool(r.Text)
		if err != nil {
			f.vc.note("%s: precondition of %s not translatable at call (%v)", funcKey(f.fn), key, err)
			f.vc.oblige("pre", fmt.Sprintf("pre@%scall:%s#%s", f.prefix, key, clauseName(r, i)), r.Tags, reach, tFalse(), f.pos(pos)).Desc = "untranslatable: " + err.Error()
			continue
		}
		name := fmt.Sprintf("pre@%s%s", f.prefix, f.vc.site("call:"+key+"/"+clauseName(r, i)))
		f.vc.oblige("pre", name, mergeTags(r.Tags, f.tags), reach, t, f.pos(pos))
		f.vc.assume(tImp(reach, t))
	}
	// recursion: decreases
	if con.Decrease != nil && f.vc.con != nil && f.vc.con.Decrease != nil && f.vc.w.sameSCC(f.vc.fn, callee) {
		callM, err1 := env.tr(con.Decrease.Text, sInt)
		own := f.vc.topEnv
		if err1 == nil && own != nil {
			entryM, err2 := own.atEntry().tr(f.vc.con.Decrease.Text, sInt)
			if err2 == nil {
				name := fmt.Sprintf("decreases@%s%s", f.prefix, f.vc.site("call:"+key))
				f.vc.oblige("decreases", name, mergeTags(con.Decrease.Tags, f.tags), reach, T(sBool, "(and (<= 0 %s) (< %s %s))", callM.S, callM.S, entryM.S), f.pos(pos))
			}
		}
	}
	// effects
	post := f.applyModifies(con, env, st, reach, pos)
	env.st = post
	// results
	var results Tuple
	var rtypes []types.Type
	if sig.Results() != nil {
		for i := 0; i < sig.Results().Len(); i++ {
			rt := sig.Results().At(i).Type()
			rtypes = append(rtypes, rt)
			var v Term
			if con.Pure && len(con.Modifies) == 0 {
				v = f.pureResult(key, i, args, rt, pre)
			} else {
				v = f.havocValue(rt, "r."+lastName(key)).(Term)
			}
			results = append(results, v)
		}
	}
	env.setResults(sig, results, rtypes)
	for _, v := range results {
		if t, ok := v.(Term); ok {
			if t.Sort == sRef {
				f.vc.assume(T(sBool, "(< (alloc %s) %s)", t.S, post.now.S))
			} else if t.Sort == sSl {
				f.vc.assume(T(sBool, "(< (alloc (Sl.base %s)) %s)", t.S, post.now.S))
			}
		}
	}
	for _, e := range con.Ensures {
		t, err := env.trBool(e.Text)
		if err != nil {
			f.vc.note("%s: postcondition of %s not usable at call (%v)", funcKey(f.fn), key, err)
			continue
		}
		f.vc.assume(tImp(reach, t))
	}
	*st = *post
	switch len(results) {
	case 0:
		return Tuple{}
	case 1:
		return results[0]
	}
	return results
}

// closureAxiom instantiates the contract of a closure for the uninterpreted
// application app.<param>.0(closure, args) that the callee's contract uses for
// calls through its function-typed parameter <param>: for all arguments that
// satisfy the closure's requires, the application satisfies its ensures. The
// closure's free variables are bound to their values at the call site.
func (f *Frame) closureAxiom(cl *Closure, pname string, st *State, reach Term) {
	cc := f.vc.w.contracts[funcKey(cl.Fn)]
	if cc == nil {
		return
	}
	f.vc.assumed[funcKey(cl.Fn)] = true
	env := &Env{f: f, vars: map[string]EV{}, st: st, old: st}
	if cl.Fn.Parent() != nil && cl.Fn.Parent().Pkg != nil {
		env.pkg = cl.Fn.Parent().Pkg.Pkg
	} else if cl.Fn.Pkg != nil {
		env.pkg = cl.Fn.Pkg.Pkg
	}
	var qdecl []string
	var qvals []Value
	for _, p := range cl.Fn.Params {
		srt := f.vc.sorts.sortOf(p.Type())
		q := Term{"q!" + smtName(p.Name()), srt}
		qdecl = append(qdecl, fmt.Sprintf("(%s %s)", q.S, srt))
		qvals = append(qvals, q)
		env.vars[p.Name()] = EV{q, p.Type()}
	}
	for i, fv := range cl.Fn.FreeVars {
		if i >= len(cl.Bindings) {
			return
		}
		switch b := cl.Bindings[i].(type) {
		case Term:
			if pt, isPtr := fv.Type().Underlying().(*types.Pointer); isPtr && b.Sort == sRef {
				// captured by reference: the variable lives in a heap cell; its value now
				elem := pt.Elem()
				if _, isS := elem.Underlying().(*types.Struct); isS {
					env.vars[fv.Name()] = EV{f.loadStruct(b, elem, st), elem}
				} else {
					env.vars[fv.Name()] = EV{f.load(f.derefAddr(b, elem), st), elem}
				}
			} else {
				env.vars[fv.Name()] = EV{b, fv.Type()}
			}
		case *Addr:
			env.vars[fv.Name()] = EV{f.load(b, st), derefType(fv.Type())}
		default:
			return
		}
	}
	for _, l := range cc.Lets {
		text := l[1]
		env.vars[l[0]] = EV{V: letFn(func(e *Env) (Term, types.Type) {
			t, ty, err := e.trTyped(text, "")
			if err != nil {
				panic(err)
			}
			return t, ty
		})}
	}
	sig := cl.Fn.Signature
	var resT types.Type = sig.Results()
	if sig.Results().Len() == 1 {
		resT = sig.Results().At(0).Type()
	}
	var results Tuple
	switch r := f.pureParamCall(pname, cl.Term, qvals, resT).(type) {
	case Term:
		results = Tuple{r}
	case Tuple:
		results = r
	}
	var rtypes []types.Type
	for i := 0; i < sig.Results().Len(); i++ {
		rtypes = append(rtypes, sig.Results().At(i).Type())
	}
	env.setResults(sig, results, rtypes)
	var pres, posts []Term
	for _, r := range cc.Requires {
		t, err := env.trBool(r.Text)
		if err != nil {
			return // a precondition that cannot be stated here: say nothing about the closure
		}
		pres = append(pres, t)
	}
	for _, e := range cc.Ensures {
		t, err := env.trBool(e.Text)
		if err != nil {
			continue
		}
		posts = append(posts, t)
	}
	if len(posts) == 0 {
		return
	}
	body := tImp(tAnd(pres...), tAnd(posts...))
	if len(qdecl) == 0 {
		f.vc.assume(tImp(reach, body))
		return
	}
	pat := f.valueTerm(results[0]).S
	f.vc.assume(tImp(reach, T(sBool, "(forall (%s) (! %s :pattern (%s)))", strings.Join(qdecl, " "), body.S, pat)))
}

// closurePre: the preconditions of a closure's contract that speak only about its
// captured variables (no parameter of the closure occurs in them) are obligations of
// the function that creates the closure, at the point where it creates it: the body
// of the closure is verified under them. (The captured variables are assumed not to
// be reassigned between creation and the calls of the closure.)
func (f *Frame) closurePre(cl *Closure, st *State, reach Term, pos token.Pos) {
	cc := f.vc.w.contracts[funcKey(cl.Fn)]
	if cc == nil || len(cc.Requires) == 0 {
		return
	}
	params := map[string]bool{}
	for _, p := range cl.Fn.Params {
		params[p.Name()] = true
	}
	env := &Env{f: f, vars: map[string]EV{}, st: st, old: st}
	if cl.Fn.Parent() != nil && cl.Fn.Parent().Pkg != nil {
		env.pkg = cl.Fn.Parent().Pkg.Pkg
	} else if cl.Fn.Pkg != nil {
		env.pkg = cl.Fn.Pkg.Pkg
	}
	for i, fv := range cl.Fn.FreeVars {
		if i >= len(cl.Bindings) {
			return
		}
		switch b := cl.Bindings[i].(type) {
		case Term:
			if pt, isPtr := fv.Type().Underlying().(*types.Pointer); isPtr && b.Sort == sRef {
				elem := pt.Elem()
				if _, isS := elem.Underlying().(*types.Struct); isS {
					env.vars[fv.Name()] = EV{f.loadStruct(b, elem, st), elem}
				} else {
					env.vars[fv.Name()] = EV{f.load(f.derefAddr(b, elem), st), elem}
				}
			} else {
				env.vars[fv.Name()] = EV{b, fv.Type()}
			}
		case *Addr:
			env.vars[fv.Name()] = EV{f.load(b, st), derefType(fv.Type())}
		}
	}
	for i, r := range cc.Requires {
		mentionsParam := false
		for _, id := range identRe.FindAllString(r.Text, -1) {
			if params[id] {
				mentionsParam = true
				break
			}
		}
		if mentionsParam {
			continue
		}
		t, err := env.trBool(r.Text)
		if err != nil {
			continue
		}
		name := fmt.Sprintf("pre@%s%s", f.prefix, f.vc.site("closure:"+funcKey(cl.Fn)+"/"+clauseName(r, i)))
		f.vc.oblige("pre", name, mergeTags(r.Tags, f.tags), reach, t, f.pos(pos)).Desc = "what the closure assumes of its captured variables holds where it is created: " + r.Text
	}
}

func lastName(key string) string {
	if i := strings.LastIndexAny(key, "./"); i >= 0 {
		return key[i+1:]
	}
	return key
}

func mergeTags(a, b []string) []string {
	seen := map[string]bool{}
	var out []string
	for _, t := range append(append([]string{}, a...), b...) {
		if !seen[t] {
			seen[t] = true
			out = append(out, t)
		}
	}
	return out
}

func clauseName(c *Clause, i int) string {
	if c.Label != "" {
		return c.Label
	}
	return fmt.Sprint(i)
}

// pureResult gives the result of a pure function as an uninterpreted function of its arguments.
func (f *Frame) pureResult(key string, i int, args []Value, rt types.Type, st *State) Term {
	fn := "fn." + smtName(key)
	if i > 0 {
		fn += fmt.Sprintf(".%d", i)
	}
	var sorts []string
	var ts []string
	for _, a := range args {
		t := f.valueTerm(a)
		sorts = append(sorts, t.Sort)
		ts = append(ts, t.S)
	}
	if con := f.vc.w.contracts[key]; con != nil && con.Opts["pure"] == "docs" && st != nil {
		// `pure docs`: a function of its arguments and of the documents in the heap
		// (it reads through Doc pointers): the document component is a hidden argument
		dk := "D:Seq_S_primitive_E"
		f.vc.compSrt[dk] = "(Array Int Seq_S_primitive_E)"
		d := st.get(dk)
		sorts = append(sorts, d.Sort)
		ts = append(ts, d.S)
	}
	rs := f.vc.sorts.sortOf(rt)
	f.vc.declareFunOnce(fn, sorts, rs)
	if len(ts) == 0 {
		return Term{fn, rs}
	}
	r := T(rs, "(%s %s)", fn, strings.Join(ts, " "))
	f.typeFactsOnce(r, rt)
	return r
}

func (f *Frame) typeFactsOnce(c Term, t types.Type) {
	if c.Sort == sInt && f.vc.mode == ModeInt && isWordType(t) {
		_, signed, _ := intInfo(t)
		if signed {
			f.assumeOnce(T(sBool, "(and (<= %s %s) (<= %s %s))", minI64, c.S, c.S, maxI64))
		} else {
			f.assumeOnce(T(sBool, "(and (<= 0 %s) (< %s %s))", c.S, c.S, two64))
		}
	}
}

// applyModifies builds the post-call state from the callee's modifies clause.
func (f *Frame) applyModifies(con *Contract, env *Env, st *State, reach Term, pos token.Pos) *State {
	pre := new(State)
	*pre = *st
	if !con.ModSet {
		if con.Pure || con.Extern {
			n := pre.derive()
			return n
		}
		return pre.havocAll("call without modifies clause")
	}
	var targets []modTarget
	for _, m := range con.Modifies {
		tgs, err := env.modTargets(m)
		if err != nil {
			f.vc.note("%s: modifies target %q not translatable (%v); heap havocked", funcKey(f.fn), m, err)
			f.calleeFrame(modTarget{all: true}, pre, reach, pos, con)
			return pre.havocAll("untranslatable modifies")
		}
		targets = append(targets, tgs...)
	}
	// the callee's footprint must lie inside the caller's own frame
	for _, tg := range targets {
		f.calleeFrame(tg, pre, reach, pos, con)
	}
	n := pre
	// allocation-time frames first, then the explicit targets
	for _, tg := range targets {
		if tg.all {
			return pre.havocAll("modifies *")
		}
		if tg.since != nil {
			n = n.havocSince(*tg.since)
		}
	}
	if n == pre {
		n = pre.derive()
		n.now = f.vc.freshConst("now", sInt)
		f.vc.assume(T(sBool, "(>= %s %s)", n.now.S, pre.now.S))
	} else {
		n = n.derive()
	}
	for _, tg := range targets {
		switch {
		case tg.since != nil:
		case tg.whole:
			n.set(tg.key, f.vc.freshConst(tg.key, f.vc.compSort(tg.key)))
		default:
			old := n.get(tg.key)
			srt := f.vc.compSort(tg.key)
			inner := strings.TrimSuffix(strings.TrimPrefix(srt, "(Array Int "), ")")
			fv := f.vc.freshConst(tg.key+".new", inner)
			if closedEverywhere {
				// what the callee stored there exists when it returns (heap closure)
				switch inner {
				case sRef:
					f.vc.assume(T(sBool, "(< (alloc %s) %s)", fv.S, n.now.S))
				case sSl:
					f.vc.assume(T(sBool, "(< (alloc (Sl.base %s)) %s)", fv.S, n.now.S))
				case "(Array Int Ref)":
					f.vc.assumeOwned(fv, T(sBool, "(forall ((i!q Int)) (! (< (alloc (select %[1]s i!q)) %[2]s) :pattern ((select %[1]s i!q))))", fv.S, n.now.S))
				}
			}
			if tg.guard != nil {
				// an empty target (elements of a slice without capacity) is not written at all
				n.set(tg.key, f.vc.define(tg.key, T(old.Sort, "(ite %s (store %s %s %s) %s)", tg.guard.S, old.S, tg.ref.S, fv.S, old.S)))
			} else {
				n.set(tg.key, f.vc.define(tg.key, T(old.Sort, "(store %s %s %s)", old.S, tg.ref.S, fv.S)))
			}
		}
	}
	return n
}

// calleeFrame emits the obligation that one frame target of a callee lies
// within the frame of the function under verification.
func (f *Frame) calleeFrame(tg modTarget, st *State, reach Term, pos token.Pos, con *Contract) {
	top := f.vc
	if top.con == nil || !top.con.ModSet {
		return
	}
	for _, m := range top.frameTargets {
		if m.all {
			return
		}
	}
	if strings.HasPrefix(tg.key, "X:") {
		// ghost state has no location: a caller lists the ghost components its callees
		// write by name, so that "not listed" means "unchanged" for callers further up
		for _, m := range top.frameTargets {
			if m.key == tg.key {
				return
			}
		}
		name := "frame@" + f.prefix + top.site("ghost:"+strings.TrimPrefix(tg.key, "X:")+"@call:"+con.Func)
		top.oblige("frame", name, top.frameTags, reach, tFalse(), f.pos(pos)).Desc = "callee writes the ghost component " + tg.key + ", which the caller's modifies clause does not list"
		return
	}
	if strings.HasPrefix(tg.key, "G:") && tg.whole {
		// a package-level variable that the callee declares it writes (the timestamp
		// state of bsonkit.Now): havocked for the caller, but callers up the chain are
		// not made to re-declare it - frames are about heap objects
		return
	}
	name := "frame@" + f.prefix + top.site("call:"+con.Func)
	switch {
	case tg.all:
		top.oblige("frame", name, top.frameTags, reach, tFalse(), f.pos(pos)).Desc = "callee may write anything"
	case tg.since != nil:
		allowed := []Term{T(sBool, "(>= %s now!0)", tg.since.S)}
		for _, m := range top.frameTargets {
			if m.since != nil {
				allowed = append(allowed, T(sBool, "(>= %s %s)", tg.since.S, m.since.S))
			}
		}
		top.oblige("frame", name, top.frameTags, reach, tOr(allowed...), f.pos(pos)).Desc = "callee frame since(...) within the caller's frame"
	case tg.whole:
		for _, m := range top.frameTargets {
			if m.whole && m.key == tg.key {
				return
			}
		}
		top.oblige("frame", name, top.frameTags, reach, tFalse(), f.pos(pos)).Desc = "callee writes the whole component " + tg.key
	default:
		if tg.guard != nil {
			reach = tAnd(reach, *tg.guard)
		}
		f.frameCheckNamed(name, tg.key, tg.ref, st, reach, pos)
	}
}

// ---------------------------------------------------------------------------
// return and deferred calls

func (f *Frame) execReturn(x *ssa.Return, st *State, reach Term) {
	var vals []Value
	for _, r := range x.Results {
		vals = append(vals, f.value(r, st))
	}
	f.rets = append(f.rets, retPoint{cond: reach, vals: vals, st: st, pos: x.Pos(), ins: x})
}

func (f *Frame) runDefers(st *State, reach Term) {
	if st.dunk {
		f.vc.note("%s: deferred calls differ between paths (heap havocked)", funcKey(f.fn))
		havocInPlace(st, "defers")
		return
	}
	ds := st.defers
	st.defers = nil
	for i := len(ds) - 1; i >= 0; i-- {
		d := ds[i]
		if d.frame != f {
			continue
		}
		c := &d.call.Call
		args := f.deferArgs()[d.call]
		if b, ok := c.Value.(*ssa.Builtin); ok {
			f.builtin(b, c, args, nil, st, reach, d.call.Pos())
			continue
		}
		if c.IsInvoke() {
			name := "iface:" + typeKey(c.Value.Type()) + "." + c.Method.Name()
			recv := f.valueTerm(f.deferFn()[d.call])
			if con := f.vc.w.contracts[name]; con != nil {
				f.callByContract(con, nil, c.Signature(), name, append([]Value{recv}, args...), nil, st, reach, d.call.Pos(), true)
			} else {
				f.callUnknown(name, nil, st, false)
			}
			continue
		}
		callee := c.StaticCallee()
		var binds []Value
		if callee == nil {
			if cl, ok := f.deferFn()[d.call].(*Closure); ok {
				callee = cl.Fn
				binds = cl.Bindings
			}
		} else if mc, ok := c.Value.(*ssa.MakeClosure); ok {
			for _, b := range mc.Bindings {
				binds = append(binds, f.value(b, st))
			}
		}
		if callee == nil {
			f.callUnknown("deferred dynamic call", nil, st, false)
			continue
		}
		f.callStatic(callee, binds, args, nil, st, reach, d.call.Pos())
	}
}

// ---------------------------------------------------------------------------
// builtins

func (f *Frame) builtin(b *ssa.Builtin, c *ssa.CallCommon, args []Value, resT types.Type, st *State, reach Term, pos token.Pos) Value {
	switch b.Name() {
	case "len":
		x := f.valueTerm(args[0])
		if mt, ok := c.Args[0].Type().Underlying().(*types.Map); ok {
			return f.mapLen(mt, x, st)
		}
		return f.lenOf(x)
	case "cap":
		x := f.valueTerm(args[0])
		if x.Sort == sSl {
			return T(sInt, "(Sl.cap %s)", x.S)
		}
		if strings.HasPrefix(x.Sort, "Seq_") {
			ws := f.vc.sorts.wordSort()
			f.vc.declareFunOnce("cap."+x.Sort, []string{x.Sort}, ws)
			r := T(ws, "(cap.%s %s)", x.Sort, x.S)
			f.assumeOnce(f.wLe(f.lenOf(x), r))
			return r
		}
		return f.havocValue(resT, "cap")
	case "append":
		return f.builtinAppend(c, args, st, reach, pos)
	case "copy":
		return f.builtinCopy(c, args, st, reach, pos)
	case "delete":
		mt := c.Args[0].Type().Underlying().(*types.Map)
		f.mapDelete(mt, f.valueTerm(args[0]), f.valueTerm(args[1]), st, reach, pos)
		return Tuple{}
	case "print", "println":
		return Tuple{}
	case "min", "max":
		a := f.valueTerm(args[0])
		bb := f.valueTerm(args[1])
		var lt Term
		_, signed, _ := intInfo(c.Args[0].Type())
		if _, ok := isBV(a.Sort); ok {
			if signed {
				lt = T(sBool, "(bvslt %s %s)", a.S, bb.S)
			} else {
				lt = T(sBool, "(bvult %s %s)", a.S, bb.S)
			}
		} else if a.Sort == sInt {
			lt = T(sBool, "(< %s %s)", a.S, bb.S)
		} else {
			return f.havocValue(resT, b.Name())
		}
		if b.Name() == "min" {
			return tIte(lt, a, bb)
		}
		return tIte(lt, bb, a)
	case "close":
		f.vc.note("%s: close(chan) not modelled", funcKey(f.fn))
		return Tuple{}
	case "ssa:wrapnilchk":
		return args[0]
	case "clear":
		havocInPlace(st, "clear")
		return Tuple{}
	case "recover":
		return Term{"VNil", sVal}
	}
	f.vc.note("%s: builtin %s not modelled", funcKey(f.fn), b.Name())
	if resT == nil {
		return Tuple{}
	}
	return f.havocValue(resT, b.Name())
}

func (f *Frame) mapLen(mt *types.Map, m Term, st *State) Term {
	_, _, ks, vs := f.mapKeys(mt)
	key := "MC:" + sortTag(ks) + "." + sortTag(vs)
	f.vc.compSrt[key] = "(Array Int Int)"
	ws := f.vc.sorts.wordSort()
	if ws != sInt {
		return f.vc.freshConst("maplen", ws)
	}
	// cardinality is not tracked through updates: a fresh non-negative number
	r := f.vc.freshConst("maplen", sInt)
	f.vc.assume(T(sBool, "(and (<= 0 %s) (<= %s %s))", r.S, r.S, maxLen))
	return r
}

func (f *Frame) builtinAppend(c *ssa.CallCommon, args []Value, st *State, reach Term, pos token.Pos) Value {
	s := f.valueTerm(args[0])
	t := f.valueTerm(args[1])
	if strings.HasPrefix(s.Sort, "Seq_") {
		// value layer: a new sequence
		if t.Sort == sStr {
			f.vc.note("%s: append(bytes, string...) content not modelled", funcKey(f.fn))
			r := f.vc.freshConst("app", s.Sort)
			f.vc.assume(tEq(f.seqLenRaw(r), f.wAdd(f.lenOf(s), f.lenOf(t))))
			return r
		}
		return f.seqAppend(s, t)
	}
	if s.Sort != sSl || t.Sort != sSl {
		return f.havocValue(c.Args[0].Type(), "app")
	}
	es := f.vc.sorts.sortOf(c.Args[0].Type().Underlying().(*types.Slice).Elem())
	key := f.compKey("E:", sortTag(es), es)
	n := T(sInt, "(+ (Sl.len %s) (Sl.len %s))", s.S, t.S)
	fits := T(sBool, "(<= %s (Sl.cap %s))", n.S, s.S)
	f.vc.assume(tImp(reach, T(sBool, "(<= %s %s)", n.S, maxLen)))
	// case 1: in place. writes base[off+len .. off+len+k)
	inPlaceReach := tAnd(reach, fits, T(sBool, "(> (Sl.len %s) 0)", t.S))
	f.frameCheckCond(key, T(sInt, "(Sl.base %s)", s.S), st, inPlaceReach, pos)
	old := st.get(key)
	// new backing content as a fresh array constrained pointwise
	nb := f.allocRefCond(st, "appbase")
	newBase := f.vc.define("app.base", tIte(fits, T(sInt, "(Sl.base %s)", s.S), nb))
	newOff := f.vc.define("app.off", tIte(fits, T(sInt, "(Sl.off %s)", s.S), Term{"0", sInt}))
	newCap := f.vc.freshConst("app.cap", sInt)
	f.vc.assume(T(sBool, "(and (>= %s %s) (<= %s %s) (=> %s (= %s (Sl.cap %s))))", newCap.S, n.S, newCap.S, maxLen, fits.S, newCap.S, s.S))
	content := f.vc.freshConst("app.content", "(Array Int "+es+")")
	oldContent := T("(Array Int "+es+")", "(select %s (Sl.base %s))", old.S, s.S)
	tContent := T("(Array Int "+es+")", "(select %s (Sl.base %s))", old.S, t.S)
	// elements: [newOff, newOff+len s) from s ; then from t ; elsewhere (in place) unchanged
	f.vc.assumeOwned(content, T(sBool, "(forall ((k!q Int)) (! (= (select %s k!q) (ite (and (<= %s k!q) (< k!q (+ %s (Sl.len %s)))) (select %s (+ (Sl.off %s) (- k!q %s))) (ite (and (<= (+ %s (Sl.len %s)) k!q) (< k!q (+ %s %s))) (select %s (+ (Sl.off %s) (- k!q (+ %s (Sl.len %s))))) (ite %s (select %s k!q) (select %s k!q))))) :pattern ((select %s k!q))))",
		content.S, newOff.S, newOff.S, s.S, oldContent.S, s.S, newOff.S,
		newOff.S, s.S, newOff.S, n.S, tContent.S, t.S, newOff.S, s.S,
		fits.S, oldContent.S, content.S, content.S))
	st.set(key, f.vc.define(key, T(old.Sort, "(store %s %s %s)", old.S, newBase.S, content.S)))
	return f.vc.define("app", T(sSl, "(mk.Sl %s %s %s %s)", newBase.S, newOff.S, n.S, newCap.S))
}

func (f *Frame) allocRefCond(st *State, hint string) Term {
	return f.allocRef(st, hint)
}

func (f *Frame) frameCheckCond(key string, ref Term, st *State, reach Term, pos token.Pos) {
	f.frameCheck(key, ref, st, reach, pos)
}

// seqAppend: r = s ++ t for value sequences.
func (f *Frame) seqAppend(s, t Term) Term {
	r := f.vc.freshConst("app", s.Sort)
	ls, lt := f.lenOf(s), f.lenOf(t)
	f.vc.assume(tEq(f.seqLenRaw(r), f.wAdd(ls, lt)))
	if f.vc.mode == ModeInt {
		f.vc.assume(T(sBool, "(<= (+ %s %s) %s)", ls.S, lt.S, maxLen))
	}
	ws := f.vc.sorts.wordSort()
	k := Term{"k!q", ws}
	f.vc.assumeOwned(r, T(sBool, "(forall ((k!q %s)) (! (= %s (ite %s %s %s)) :pattern (%s)))", ws,
		f.seqAt(r, k).S, f.wLt(k, ls).S, f.seqAt(s, k).S, f.seqAt(t, f.wSub(k, ls)).S, f.seqAt(r, k).S))
	f.vc.declareFunOnce("isnil."+s.Sort, []string{s.Sort}, sBool)
	f.vc.assume(tImp(T(sBool, "(isnil.%s %s)", s.Sort, r.S), tEq(f.wAdd(ls, lt), f.wordLit(0))))
	return r
}

func (f *Frame) builtinCopy(c *ssa.CallCommon, args []Value, st *State, reach Term, pos token.Pos) Value {
	dst := f.valueTerm(args[0])
	src := f.valueTerm(args[1])
	ld, ls := f.lenOf(dst), f.lenOf(src)
	n := f.vc.define("copy.n", tIte(f.wLt(ld, ls), ld, ls))
	if dst.Sort == sSl && src.Sort == sSl {
		es := f.vc.sorts.sortOf(c.Args[0].Type().Underlying().(*types.Slice).Elem())
		key := f.compKey("E:", sortTag(es), es)
		f.frameCheck(key, T(sInt, "(Sl.base %s)", dst.S), st, tAnd(reach, T(sBool, "(> %s 0)", n.S)), pos)
		old := st.get(key)
		content := f.vc.freshConst("copy.content", "(Array Int "+es+")")
		f.vc.assumeOwned(content, T(sBool, "(forall ((k!q Int)) (! (= (select %s k!q) (ite (and (<= (Sl.off %s) k!q) (< k!q (+ (Sl.off %s) %s))) (select (select %s (Sl.base %s)) (+ (Sl.off %s) (- k!q (Sl.off %s)))) (select (select %s (Sl.base %s)) k!q))) :pattern ((select %s k!q))))",
			content.S, dst.S, dst.S, n.S, old.S, src.S, src.S, dst.S, old.S, dst.S, content.S))
		st.set(key, f.vc.define(key, T(old.Sort, "(store %s (Sl.base %s) %s)", old.S, dst.S, content.S)))
		return n
	}
	if strings.HasPrefix(dst.Sort, "Seq_") {
		// value layer: the destination SSA value gets a new version
		if key := f.seqVersionKey(c.Args[0]); key != "" {
			r := f.vc.freshConst("copied", dst.Sort)
			f.vc.assume(tEq(f.seqLenRaw(r), ld))
			ws := f.vc.sorts.wordSort()
			k := Term{"k!q", ws}
			if src.Sort == dst.Sort {
				f.vc.assumeOwned(r, T(sBool, "(forall ((k!q %s)) (! (= %s (ite (and %s %s) %s %s)) :pattern (%s)))", ws,
					f.seqAt(r, k).S, f.wLe(f.wordLit(0), k).S, f.wLt(k, n).S, f.seqAt(src, k).S, f.seqAt(dst, k).S, f.seqAt(r, k).S))
			} else {
				f.vc.assumeOwned(r, T(sBool, "(forall ((k!q %s)) (! (=> (not (and %s %s)) (= %s %s)) :pattern (%s)))", ws,
					f.wLe(f.wordLit(0), k).S, f.wLt(k, n).S, f.seqAt(r, k).S, f.seqAt(dst, k).S, f.seqAt(r, k).S))
			}
			st.set(key, r)
		} else {
			f.vc.note("%s: copy into a derived slice: aliasing with the original not modelled", funcKey(f.fn))
		}
		return n
	}
	return n
}

func (f *Frame) seqVersionKey(v ssa.Value) string {
	if _, ok := f.vals[v].(Term); ok {
		return f.verKey(v)
	}
	return ""
}
