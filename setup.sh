#!/bin/sh
# builds the VC generator offline from files on disk
set -e
cd "$(dirname "$0")/vc"
export PATH=/opt/veriftools/go1.26.8/bin:$PATH GOFLAGS=-mod=mod GOPROXY=off GOSUMDB=off GOTOOLCHAIN=local
mkdir -p ../bin
go build -o ../bin/lungovc ./cmd/lungovc
