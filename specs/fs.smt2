; ---------------------------------------------------------------------------
; Ghost model of a POSIX-style file system for property C05 (crash safety of the
; single-file store). Contents are abstract ids: 0 = no such file, 1 = an empty
; file, contentOf(r) = the complete stream a reader delivers. The ghost
; variables themselves (fsVol, fsSynced, fsEntryDurable, fsName) are declared in
; fs.contracts together with the assumed contracts of os.* and io.Copy.
(declare-fun contentOf (Int) Int)
(declare-fun written (Int Int) Int)      ; content of a file after appending a stream to it
; appending a complete stream to an empty file yields exactly that stream
(assert (forall ((c Int)) (! (= (written 1 c) c) :pattern ((written 1 c)))))
(declare-fun dirOf (Str) Str)            ; filepath.Dir
; open(2) flags on linux/amd64: O_CREAT 0x40, O_EXCL 0x80, O_TRUNC 0x200
(define-fun flagBit ((f Int) (b Int)) Bool (= (mod (div f b) 2) 1))
(define-fun opensEmpty ((f Int)) Bool (or (and (flagBit f 64) (flagBit f 128)) (flagBit f 512)))
