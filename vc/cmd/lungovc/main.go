package main

import (
	"fmt"
	"os"

	"golang.org/x/tools/go/packages"
	"golang.org/x/tools/go/ssa"
	"golang.org/x/tools/go/ssa/ssautil"
)

func main() {
	os.Setenv("PATH", "/opt/veriftools/go1.26.8/bin:"+os.Getenv("PATH"))
	cfg := &packages.Config{Mode: packages.LoadAllSyntax, Dir: "/repo", BuildFlags: []string{"-tags=verif"}, Env: append(os.Environ(), "PATH=/opt/veriftools/go1.26.8/bin:"+os.Getenv("PATH"), "GOFLAGS=-mod=mod", "GOPROXY=off", "GOSUMDB=off", "GOTOOLCHAIN=local")}
	pkgs, err := packages.Load(cfg, "./...")
	if err != nil {
		panic(err)
	}
	if packages.PrintErrors(pkgs) > 0 {
		os.Exit(1)
	}
	prog, spkgs := ssautil.AllPackages(pkgs, ssa.GlobalDebug)
	prog.Build()
	for _, p := range spkgs {
		fmt.Println(p.Pkg.Path(), len(p.Members))
	}
}
