package main

import (
	"fmt"
	"go/token"
	"go/types"
	"strings"

	"golang.org/x/tools/go/ssa"
)

const (
	minI64 = "(- 9223372036854775808)"
	maxI64 = "9223372036854775807"
	two64  = "18446744073709551616"
)

// wrapInt models Go's wrap-around for a single + or - on mathematical ints.
func wrapInt(x string, signed bool) string {
	if signed {
		return fmt.Sprintf("(let ((w!x %s)) (ite (> w!x %s) (- w!x %s) (ite (< w!x %s) (+ w!x %s) w!x)))", x, maxI64, two64, minI64, two64)
	}
	return fmt.Sprintf("(let ((w!x %s)) (ite (>= w!x %s) (- w!x %s) (ite (< w!x 0) (+ w!x %s) w!x)))", x, two64, two64, two64)
}

func (f *Frame) binop(x *ssa.BinOp, st *State, reach Term) Value {
	a := f.term(x.X, st)
	b := f.term(x.Y, st)
	t := x.X.Type()
	rs := f.vc.sorts.sortOf(x.Type())
	op := x.Op
	// comparisons
	switch op {
	case token.EQL, token.NEQ:
		eq := f.equal(a, b, x.X.Type(), x.Y.Type(), reach, x.Pos())
		if op == token.NEQ {
			return tNot(eq)
		}
		return eq
	}
	switch a.Sort {
	case sBool:
		switch op {
		case token.AND, token.LAND:
			return tAnd(a, b)
		case token.OR, token.LOR:
			return tOr(a, b)
		}
	case sF64, sF32:
		switch op {
		case token.LSS:
			return T(sBool, "(fp.lt %s %s)", a.S, b.S)
		case token.LEQ:
			return T(sBool, "(fp.leq %s %s)", a.S, b.S)
		case token.GTR:
			return T(sBool, "(fp.gt %s %s)", a.S, b.S)
		case token.GEQ:
			return T(sBool, "(fp.geq %s %s)", a.S, b.S)
		case token.ADD:
			return T(a.Sort, "(fp.add RNE %s %s)", a.S, b.S)
		case token.SUB:
			return T(a.Sort, "(fp.sub RNE %s %s)", a.S, b.S)
		case token.MUL:
			return T(a.Sort, "(fp.mul RNE %s %s)", a.S, b.S)
		case token.QUO:
			return T(a.Sort, "(fp.div RNE %s %s)", a.S, b.S)
		}
	case sStr:
		switch op {
		case token.ADD:
			f.vc.declareFunOnce("gs.concat", []string{sStr, sStr}, sStr)
			r := T(sStr, "(gs.concat %s %s)", a.S, b.S)
			if f.vc.mode == ModeInt {
				f.assumeOnce(T(sBool, "(= (gs.len %s) (+ (gs.len %s) (gs.len %s)))", r.S, a.S, b.S))
			}
			return r
		case token.LSS, token.LEQ, token.GTR, token.GEQ:
			f.vc.declareFunOnce("gs.cmp", []string{sStr, sStr}, sInt)
			c := fmt.Sprintf("(gs.cmp %s %s)", a.S, b.S)
			switch op {
			case token.LSS:
				return T(sBool, "(< %s 0)", c)
			case token.LEQ:
				return T(sBool, "(<= %s 0)", c)
			case token.GTR:
				return T(sBool, "(> %s 0)", c)
			default:
				return T(sBool, "(>= %s 0)", c)
			}
		}
	}
	bits, signed, isInt := intInfo(t)
	if !isInt {
		f.vc.note("%s: binary %s on %s not modelled", funcKey(f.fn), op, t)
		return f.havocValue(x.Type(), x.Name())
	}
	if n, ok := isBV(a.Sort); ok {
		_ = n
		// shifts: the shift count may have a different width / sort
		if op == token.SHL || op == token.SHR {
			cnt := f.toBV(b, x.Y.Type(), bits)
			_, cs, _ := intInfo(x.Y.Type())
			if cs {
				f.safety("shift", "shift:"+shortVal(x.Y), reach, f.nonNeg(b, x.Y.Type()), x.Pos())
			}
			big := fmt.Sprintf("(bvuge %s %s)", cnt.S, bvLit(uint64(bits), bits))
			if op == token.SHL {
				return T(a.Sort, "(ite %s %s (bvshl %s %s))", big, bvLit(0, bits), a.S, cnt.S)
			}
			if signed {
				return T(a.Sort, "(ite %s (ite (bvslt %s %s) %s %s) (bvashr %s %s))", big, a.S, bvLit(0, bits), bvLit(^uint64(0), bits), bvLit(0, bits), a.S, cnt.S)
			}
			return T(a.Sort, "(ite %s %s (bvlshr %s %s))", big, bvLit(0, bits), a.S, cnt.S)
		}
		switch op {
		case token.ADD:
			return T(a.Sort, "(bvadd %s %s)", a.S, b.S)
		case token.SUB:
			return T(a.Sort, "(bvsub %s %s)", a.S, b.S)
		case token.MUL:
			return T(a.Sort, "(bvmul %s %s)", a.S, b.S)
		case token.QUO, token.REM:
			f.safety("div", "div:"+shortVal(x.X)+op.String()+shortVal(x.Y), reach, T(sBool, "(not (= %s %s))", b.S, bvLit(0, bits)), x.Pos())
			if signed {
				if op == token.QUO {
					return T(a.Sort, "(bvsdiv %s %s)", a.S, b.S)
				}
				return T(a.Sort, "(bvsrem %s %s)", a.S, b.S)
			}
			if op == token.QUO {
				return T(a.Sort, "(bvudiv %s %s)", a.S, b.S)
			}
			return T(a.Sort, "(bvurem %s %s)", a.S, b.S)
		case token.AND:
			return T(a.Sort, "(bvand %s %s)", a.S, b.S)
		case token.OR:
			return T(a.Sort, "(bvor %s %s)", a.S, b.S)
		case token.XOR:
			return T(a.Sort, "(bvxor %s %s)", a.S, b.S)
		case token.AND_NOT:
			return T(a.Sort, "(bvand %s (bvnot %s))", a.S, b.S)
		case token.LSS, token.LEQ, token.GTR, token.GEQ:
			m := map[token.Token]string{token.LSS: "lt", token.LEQ: "le", token.GTR: "gt", token.GEQ: "ge"}[op]
			pre := "bvu"
			if signed {
				pre = "bvs"
			}
			return T(sBool, "(%s%s %s %s)", pre, m, a.S, b.S)
		}
	}
	if a.Sort == sInt {
		switch op {
		case token.ADD:
			if phi, ok := x.X.(*ssa.Phi); ok && phi.Comment == "rangeindex" {
				// the hidden index of a range loop stays in [-1, len): its increment cannot wrap
				return T(sInt, "(+ %s %s)", a.S, b.S)
			}
			if f.vc.con != nil && f.vc.con.Opts["overflow"] == "checked" && signed {
				// the sum is taken as the mathematical one; that it fits is a separate
				// obligation (safe/overflow) instead of a wrap-around in every later formula
				r := T(sInt, "(+ %s %s)", a.S, b.S)
				f.safety("overflow", "add:"+shortVal(x.X)+"+"+shortVal(x.Y), reach, T(sBool, "(and (<= %s %s) (<= %s %s))", minI64, r.S, r.S, maxI64), x.Pos())
				return r
			}
			return f.vc.define("add", T(sInt, "%s", wrapInt(fmt.Sprintf("(+ %s %s)", a.S, b.S), signed)))
		case token.SUB:
			return f.vc.define("sub", T(sInt, "%s", wrapInt(fmt.Sprintf("(- %s %s)", a.S, b.S), signed)))
		case token.MUL:
			r := T(sInt, "(* %s %s)", a.S, b.S)
			if !isNumeral(a.S) && !isNumeral(b.S) {
				// a product of two variables would make every query that mentions it nonlinear:
				// it is named by a constant that is only known by the facts below (a sound abstraction)
				p := f.vc.freshConst("mul", sInt)
				for _, ax := range []string{
					"(=> (or (= %[1]s 0) (= %[2]s 0)) (= %[3]s 0))",
					"(=> (= %[1]s 1) (= %[3]s %[2]s))",
					"(=> (= %[2]s 1) (= %[3]s %[1]s))",
					"(=> (and (>= %[1]s 1) (>= %[2]s 1)) (and (>= %[3]s %[1]s) (>= %[3]s %[2]s)))",
					"(=> (and (<= %[1]s (- 1)) (<= %[2]s (- 1))) (and (>= %[3]s (- %[1]s)) (>= %[3]s (- %[2]s))))",
					"(=> (and (>= %[1]s 1) (<= %[2]s (- 1))) (and (<= %[3]s (- %[1]s)) (<= %[3]s %[2]s)))",
					"(=> (and (<= %[1]s (- 1)) (>= %[2]s 1)) (and (<= %[3]s %[1]s) (<= %[3]s (- %[2]s))))",
				} {
					f.vc.assumeOwned(p, T(sBool, ax, a.S, b.S, p.S))
				}
				r = p
			}
			lo, hi := minI64, maxI64
			if !signed {
				lo, hi = "0", "18446744073709551615"
			}
			f.safetyTagged("overflow", "mul:"+shortVal(x.X)+"*"+shortVal(x.Y), reach, T(sBool, "(and (<= %s %s) (<= %s %s))", lo, r.S, r.S, hi), x.Pos())
			return r
		case token.QUO, token.REM:
			f.safety("div", "div:"+shortVal(x.X)+op.String()+shortVal(x.Y), reach, T(sBool, "(not (= %s 0))", b.S), x.Pos())
			// Go truncates toward zero; SMT div floors for positive divisors.
			q := fmt.Sprintf("(let ((q!a %s) (q!b %s)) (ite (>= q!a 0) (div q!a q!b) (- (div (- q!a) q!b))))", a.S, b.S)
			if op == token.QUO {
				// MinInt64 / -1 wraps
				return f.vc.define("quo", T(sInt, "%s", wrapInt(q, signed)))
			}
			return f.vc.define("rem", T(sInt, "(- %s (* %s %s))", a.S, b.S, q))
		case token.LSS:
			return T(sBool, "(< %s %s)", a.S, b.S)
		case token.LEQ:
			return T(sBool, "(<= %s %s)", a.S, b.S)
		case token.GTR:
			return T(sBool, "(> %s %s)", a.S, b.S)
		case token.GEQ:
			return T(sBool, "(>= %s %s)", a.S, b.S)
		}
	}
	f.vc.note("%s: binary %s on %s (%s) not modelled", funcKey(f.fn), op, t, a.Sort)
	_ = rs
	return f.havocValue(x.Type(), x.Name())
}

// isNumeral: a (possibly negated) integer literal.
func isNumeral(s string) bool {
	s = strings.TrimSuffix(strings.TrimPrefix(s, "(- "), ")")
	if s == "" {
		return false
	}
	for _, c := range s {
		if c < '0' || c > '9' {
			return false
		}
	}
	return true
}

func (f *Frame) safetyTagged(kind, desc string, reach Term, goal Term, p token.Pos) {
	f.safety(kind, desc, reach, goal, p)
}

func (f *Frame) nonNeg(b Term, t types.Type) Term {
	if n, ok := isBV(b.Sort); ok {
		return T(sBool, "(bvsge %s %s)", b.S, bvLit(0, n))
	}
	return T(sBool, "(>= %s 0)", b.S)
}

// toBV converts an integer term (of Go type t) to a bit-vector of the given width.
func (f *Frame) toBV(b Term, t types.Type, bits int) Term {
	if n, ok := isBV(b.Sort); ok {
		if n == bits {
			return b
		}
		if n > bits {
			return T(bvSort(bits), "((_ extract %d 0) %s)", bits-1, b.S)
		}
		_, signed, _ := intInfo(t)
		if signed {
			return T(bvSort(bits), "((_ sign_extend %d) %s)", bits-n, b.S)
		}
		return T(bvSort(bits), "((_ zero_extend %d) %s)", bits-n, b.S)
	}
	fn := fmt.Sprintf("int.to.bv%d", bits)
	f.vc.declareFunOnce(fn, []string{sInt}, bvSort(bits))
	return T(bvSort(bits), "(%s %s)", fn, b.S)
}

// equal models Go's == on two values of the given types.
func (f *Frame) equal(a, b Term, ta, tb types.Type, reach Term, p token.Pos) Term {
	if a.Sort == sF64 || a.Sort == sF32 {
		return T(sBool, "(fp.eq %s %s)", a.S, b.S)
	}
	if a.Sort == sVal && b.Sort == sVal {
		// interface comparison: panics if both dynamic types are equal and uncomparable
		_, aConst := constNil(a)
		_, bConst := constNil(b)
		if !aConst && !bConst {
			unc := func(v Term) Term {
				return T(sBool, "(or ((_ is VDoc) %s) ((_ is VArr) %s) ((_ is VBin) %s))", v.S, v.S, v.S)
			}
			goal := tNot(tAnd(unc(a), unc(b), T(sBool, "(= (val.ctor %s) (val.ctor %s))", a.S, b.S)))
			f.vc.uses["val"] = true
			f.safety("ifacecmp", "ifacecmp:"+"==", reach, goal, p)
		}
		// float payloads compare with fp.eq; NaN != NaN
		return T(sBool, "(ite (and ((_ is VF64) %s) ((_ is VF64) %s)) (fp.eq (f64 %s) (f64 %s)) (= %s %s))", a.S, b.S, a.S, b.S, a.S, b.S)
	}
	if a.Sort != b.Sort {
		f.vc.note("%s: comparison of %s and %s not modelled", funcKey(f.fn), a.Sort, b.Sort)
		return f.vc.freshConst("eq", sBool)
	}
	if strings.HasPrefix(a.Sort, "Seq_") || a.Sort == sSl {
		// only comparison with nil is legal for slices
		if a.Sort == sSl {
			if strings.HasPrefix(b.S, "(mk.Sl 0") {
				return T(sBool, "(= (Sl.base %s) 0)", a.S)
			}
			return T(sBool, "(= (Sl.base %s) 0)", b.S)
		}
		f.vc.declareFunOnce("isnil."+a.Sort, []string{a.Sort}, sBool)
		other := a
		if strings.HasPrefix(a.S, "nil.") {
			other = b
		}
		f.assumeOnce(T(sBool, "(isnil.%s nil.%s)", a.Sort, a.Sort))
		r := T(sBool, "(isnil.%s %s)", a.Sort, other.S)
		f.assumeOnce(tImp(r, tEq(f.seqLenRaw(other), f.wordLit(0))))
		return r
	}
	return tEq(a, b)
}

func constNil(t Term) (Term, bool) {
	return t, t.S == "VNil"
}

func (f *Frame) unop(x *ssa.UnOp, st *State, reach Term) Value {
	switch x.Op {
	case token.MUL: // load
		av := f.value(x.X, st)
		switch a := av.(type) {
		case *Addr:
			if a.Kind == aUnknown {
				return f.havocValue(x.Type(), x.Name())
			}
			v := f.load(a, st)
			f.readFacts(v, x.Type(), st)
			return v
		case Term:
			f.safety("nil", "load:"+shortVal(x.X), reach, T(sBool, "(not (= %s 0))", a.S), x.Pos())
			elem := x.X.Type().Underlying().(*types.Pointer).Elem()
			var v Term
			if _, isStruct := elem.Underlying().(*types.Struct); isStruct {
				v = f.vc.define("ld", f.loadStruct(a, elem, st))
			} else {
				v = f.load(f.derefAddr(a, elem), st)
			}
			f.readFacts(v, x.Type(), st)
			return v
		}
	case token.NOT:
		return tNot(f.term(x.X, st))
	case token.SUB:
		a := f.term(x.X, st)
		if n, ok := isBV(a.Sort); ok {
			_ = n
			return T(a.Sort, "(bvneg %s)", a.S)
		}
		if a.Sort == sInt {
			_, signed, _ := intInfo(x.X.Type())
			return f.vc.define("neg", T(sInt, "%s", wrapInt(fmt.Sprintf("(- %s)", a.S), signed)))
		}
		if a.Sort == sF64 || a.Sort == sF32 {
			return T(a.Sort, "(fp.neg %s)", a.S)
		}
	case token.XOR:
		a := f.term(x.X, st)
		if _, ok := isBV(a.Sort); ok {
			return T(a.Sort, "(bvnot %s)", a.S)
		}
	case token.ARROW:
		f.vc.note("%s: channel receive not modelled", funcKey(f.fn))
		return f.havocValue(x.Type(), x.Name())
	}
	f.vc.note("%s: unary %s not modelled", funcKey(f.fn), x.Op)
	return f.havocValue(x.Type(), x.Name())
}

// readFacts assumes what is known of every value read from memory.
func (f *Frame) readFacts(v Term, t types.Type, st *State) {
	if v.Sort == sRef {
		f.assumeOnce(T(sBool, "(< (alloc %s) %s)", v.S, st.now.S))
	}
	if v.Sort == sSl {
		f.assumeOnce(T(sBool, "(and (<= 0 (Sl.off %s)) (<= 0 (Sl.len %s)) (<= (Sl.len %s) (Sl.cap %s)) (<= (Sl.cap %s) %s) (< (alloc (Sl.base %s)) %s))", v.S, v.S, v.S, v.S, v.S, maxLen, v.S, st.now.S))
	}
	if v.Sort == sInt && f.vc.mode == ModeInt && isWordType(t) {
		_, signed, _ := intInfo(t)
		if signed {
			f.assumeOnce(T(sBool, "(and (<= %s %s) (<= %s %s))", minI64, v.S, v.S, maxI64))
		} else {
			f.assumeOnce(T(sBool, "(and (<= 0 %s) (< %s %s))", v.S, v.S, two64))
		}
	}
}

// convert models a Go conversion T(x).
func (f *Frame) convert(v Term, from, to types.Type) Value {
	s := f.vc.sorts
	ts := s.sortOf(to)
	if v.Sort == ts {
		fb, fs, fok := intInfo(from)
		tb, tsg, tok := intInfo(to)
		if fok && tok && ts == sInt && (fb != tb || fs != tsg) {
			// int <-> uint in Int mode
			if fs && !tsg {
				return f.vc.define("cv", T(sInt, "(ite (< %s 0) (+ %s %s) %s)", v.S, v.S, two64, v.S))
			}
			if !fs && tsg {
				return f.vc.define("cv", T(sInt, "(ite (> %s %s) (- %s %s) %s)", v.S, maxI64, v.S, two64, v.S))
			}
		}
		return v
	}
	if v.Sort == sRef && ts == sInt {
		// unsafe.Pointer -> uintptr: the address; distinct objects have distinct addresses
		if b, ok := to.Underlying().(*types.Basic); ok && b.Kind() == types.Uintptr {
			f.vc.declareFunOnce("addr.of", []string{sInt}, sInt)
			r := T(sInt, "(addr.of %s)", v.S)
			f.assumeOnce(T(sBool, "(and (<= 0 %s) (< %s %s))", r.S, r.S, two64))
			f.assumeOnce(T(sBool, "(forall ((p!q Int) (q!q Int)) (! (=> (= (addr.of p!q) (addr.of q!q)) (= p!q q!q)) :pattern ((addr.of p!q) (addr.of q!q))))"))
			return r
		}
	}
	fb, fsigned, fIsInt := intInfo(from)
	tb, tsigned, tIsInt := intInfo(to)
	_ = tb
	switch {
	case fIsInt && tIsInt:
		vn, vbv := isBV(v.Sort)
		tn, tbv := isBV(ts)
		switch {
		case vbv && tbv:
			if tn < vn {
				return T(ts, "((_ extract %d 0) %s)", tn-1, v.S)
			}
			if fsigned {
				return T(ts, "((_ sign_extend %d) %s)", tn-vn, v.S)
			}
			return T(ts, "((_ zero_extend %d) %s)", tn-vn, v.S)
		case vbv && ts == sInt:
			// fixed-width -> int (Int mode): exact value
			var r Term
			if fsigned {
				fn := fmt.Sprintf("bv%d.to.int", vn)
				f.vc.declareFunOnce(fn, []string{v.Sort}, sInt)
				r = T(sInt, "(%s %s)", fn, v.S)
				lo := fmt.Sprintf("(- %d)", uint64(1)<<uint(vn-1))
				hi := fmt.Sprintf("%d", (uint64(1)<<uint(vn-1))-1)
				f.assumeOnce(T(sBool, "(and (<= %s %s) (<= %s %s))", lo, r.S, r.S, hi))
				back := fmt.Sprintf("int.to.bv%d", vn)
				f.vc.declareFunOnce(back, []string{sInt}, v.Sort)
				f.assumeOnce(T(sBool, "(= (%s %s) %s)", back, r.S, v.S))
			} else {
				fn := fmt.Sprintf("ubv%d.to.int", vn)
				f.vc.declareFunOnce(fn, []string{v.Sort}, sInt)
				r = T(sInt, "(%s %s)", fn, v.S)
				hi := "18446744073709551615"
				if vn < 64 {
					hi = fmt.Sprintf("%d", (uint64(1)<<uint(vn))-1)
				}
				f.assumeOnce(T(sBool, "(and (<= 0 %s) (<= %s %s))", r.S, r.S, hi))
			}
			if !tsigned && fsigned {
				return f.vc.define("cv", T(sInt, "(ite (< %s 0) (+ %s %s) %s)", r.S, r.S, two64, r.S))
			}
			return r
		case v.Sort == sInt && tbv:
			fn := fmt.Sprintf("int.to.bv%d", tn)
			f.vc.declareFunOnce(fn, []string{sInt}, ts)
			r := T(ts, "(%s %s)", fn, v.S)
			return r
		}
	case fIsInt && (ts == sF64 || ts == sF32):
		eb, sb := 11, 53
		if ts == sF32 {
			eb, sb = 8, 24
		}
		if _, ok := isBV(v.Sort); ok {
			if fsigned {
				return T(ts, "((_ to_fp %d %d) RNE %s)", eb, sb, v.S)
			}
			return T(ts, "((_ to_fp_unsigned %d %d) RNE %s)", eb, sb, v.S)
		}
		return T(ts, "((_ to_fp %d %d) RNE (to_real %s))", eb, sb, v.S)
	case (v.Sort == sF64 || v.Sort == sF32) && tIsInt:
		if tn, ok := isBV(ts); ok {
			// in range: truncation toward zero; out of range / NaN: implementation-defined (unconstrained)
			u := f.vc.freshConst("f2i", ts)
			var conv, lo, hi string
			eb, sb := 11, 53
			if v.Sort == sF32 {
				eb, sb = 8, 24
			}
			if tsigned {
				conv = fmt.Sprintf("((_ fp.to_sbv %d) RTZ %s)", tn, v.S)
				lo = fmt.Sprintf("((_ to_fp %d %d) RNE (- %s.0))", eb, sb, pow2(tn-1))
				hi = fmt.Sprintf("((_ to_fp %d %d) RNE %s.0)", eb, sb, pow2(tn-1))
				return f.vc.define("f2i", T(ts, "(ite (and (fp.geq %s %s) (fp.lt %s %s)) %s %s)", v.S, lo, v.S, hi, conv, u.S))
			}
			conv = fmt.Sprintf("((_ fp.to_ubv %d) RTZ %s)", tn, v.S)
			hi = fmt.Sprintf("((_ to_fp %d %d) RNE %s.0)", eb, sb, pow2(tn))
			return f.vc.define("f2i", T(ts, "(ite (and (fp.gt %s ((_ to_fp %d %d) RNE (- 1.0))) (fp.lt %s %s)) %s %s)", v.S, eb, sb, v.S, hi, conv, u.S))
		}
		f.vc.note("%s: float to int conversion in Int mode is unconstrained", funcKey(f.fn))
		return f.havocValue(to, "f2i")
	case v.Sort == sF64 && ts == sF32:
		return T(sF32, "((_ to_fp 8 24) RNE %s)", v.S)
	case v.Sort == sF32 && ts == sF64:
		return T(sF64, "((_ to_fp 11 53) RNE %s)", v.S)
	}
	_ = fb
	// string <-> []byte etc.
	if v.Sort == sStr && ts == "Seq_u8" || v.Sort == "Seq_u8" && ts == sStr {
		fn := "conv." + sortTag(v.Sort) + "." + sortTag(ts)
		f.vc.declareFunOnce(fn, []string{v.Sort}, ts)
		r := T(ts, "(%s %s)", fn, v.S)
		f.assumeOnce(tEq(f.lenOf(r), f.lenOf(v)))
		return r
	}
	f.vc.note("%s: conversion %s -> %s not modelled", funcKey(f.fn), from, to)
	return f.havocValue(to, "conv")
}

func pow2(n int) string {
	// exact decimal of 2^n for n <= 64
	if n == 64 {
		return two64
	}
	return fmt.Sprintf("%d", uint64(1)<<uint(n))
}

// ---------------------------------------------------------------------------
// interfaces

func (f *Frame) boxOther(v Term, t types.Type) Term {
	id := f.vc.sorts.typeID(t)
	if v.Sort == sInt || v.Sort == sRef || v.Sort == sErr || v.Sort == sIfc {
		return T(sVal, "(VOther %d %s)", id, v.S)
	}
	pay := f.vc.freshConst("pay", sInt)
	return T(sVal, "(VOther %d %s)", id, pay.S)
}

func (f *Frame) makeInterface(v Value, from, to types.Type) Value {
	ts := f.vc.sorts.sortOf(to)
	if ts == sVal {
		var vt Term
		switch x := v.(type) {
		case Term:
			vt = x
		case *Addr:
			vt = f.addrToTerm(x)
		case *Closure:
			vt = x.Term
		default:
			return f.havocValue(to, "iface")
		}
		from = types.Unalias(from)
		if ctor, _, ok := valCtor(from); ok {
			if ctor == "VNull" || ctor == "VMissing" {
				return Term{ctor, sVal}
			}
			return T(sVal, "(%s %s)", ctor, vt.S)
		}
		if isEmptyInterface(from) {
			return vt
		}
		if vt.Sort == sErr || vt.Sort == sIfc {
			// interface to interface keeps nil-ness
			return T(sVal, "(ite (= %s 0) VNil (VOther %d %s))", vt.S, f.vc.sorts.typeID(from), vt.S)
		}
		return f.boxOther(vt, from)
	}
	// non-empty interface (error, Stringer, ...): a non-nil opaque value
	r := f.vc.freshConst("ifc", ts)
	f.vc.assume(T(sBool, "(not (= %s 0))", r.S))
	// remember the dynamic value for pointer receivers (identity is enough for us)
	if vt, ok := v.(Term); ok && vt.Sort == sRef {
		f.vc.declareFunOnce("ifc.ptr", []string{sInt}, sInt)
		f.vc.assume(T(sBool, "(= (ifc.ptr %s) %s)", r.S, vt.S))
	}
	return r
}

func (f *Frame) typeAssert(x *ssa.TypeAssert, st *State, reach Term) {
	v := f.term(x.X, st)
	at := types.Unalias(x.AssertedType)
	ts := f.vc.sorts.sortOf(at)
	var ok, val Term
	if v.Sort == sVal {
		if _, isIface := at.Underlying().(*types.Interface); isIface {
			if isEmptyInterface(at) {
				ok = T(sBool, "(not (= %s VNil))", v.S)
				val = v
			} else {
				okc := f.vc.freshConst("ok", sBool)
				f.vc.assume(tImp(tEq(v, Term{"VNil", sVal}), tNot(okc)))
				ok = okc
				val = f.vc.freshConst("asif", ts)
				f.vc.assume(tImp(okc, T(sBool, "(not (= %s 0))", val.S)))
			}
		} else if ctor, acc, known := valCtor(at); known {
			ok = T(sBool, "((_ is %s) %s)", ctor, v.S)
			if acc == "" {
				val = Term{"mk." + ts, ts}
			} else {
				val = T(ts, "(%s %s)", acc, v.S)
			}
		} else {
			id := f.vc.sorts.typeID(at)
			ok = T(sBool, "(and ((_ is VOther) %s) (= (tid %s) %d))", v.S, v.S, id)
			if ts == sInt || ts == sRef {
				val = T(ts, "(pay %s)", v.S)
			} else {
				val = f.vc.freshConst("as", ts)
			}
		}
	} else {
		// assertion on a non-empty interface: unknown
		ok = f.vc.freshConst("ok", sBool)
		val = f.vc.freshConst("as", ts)
		f.vc.assume(tImp(T(sBool, "(= %s 0)", v.S), tNot(ok)))
	}
	if x.CommaOk {
		// on failure the value is the zero value
		zero := f.zeroOf(at)
		if strings.HasPrefix(ts, "Seq_") {
			// sequences are indexed under quantifiers: a constant (equal to the payload
			// when the assertion holds) matches patterns where an ite term would not
			c := f.vc.freshConst("ta", ts)
			f.vc.assume(tImp(ok, tEq(c, val)))
			f.vc.assume(tImp(tNot(ok), tEq(c, zero)))
			f.vals[x] = Tuple{c, ok}
			return
		}
		f.vals[x] = Tuple{f.vc.define("ta", tIte(ok, val, zero)), ok}
		return
	}
	f.safety("assert", "assert:"+shortVal(x.X)+".("+typeKey(at)+")", reach, ok, x.Pos())
	f.vals[x] = val
}

// ---------------------------------------------------------------------------
// indexing and slicing

func (f *Frame) execIndex(x *ssa.Index, st *State, reach Term) {
	v := f.term(x.X, st)
	i := f.term(x.Index, st)
	i = f.toWord(i, x.Index.Type())
	switch {
	case v.Sort == sStr:
		f.safety("index", "index:"+shortVal(x.X)+"["+shortVal(x.Index)+"]", reach, f.inBounds(i, f.lenOf(v)), x.Pos())
		if f.vc.mode == ModeBV {
			f.vals[x] = T(bvSort(8), "(gs.atbv %s %s)", v.S, i.S)
		} else {
			f.vals[x] = T(bvSort(8), "(gs.at %s %s)", v.S, i.S)
		}
	case strings.HasPrefix(v.Sort, "(Array Int "):
		n := x.X.Type().Underlying().(*types.Array).Len()
		f.safety("index", "index:"+shortVal(x.X)+"["+shortVal(x.Index)+"]", reach, f.inBounds(i, f.wordLit(n)), x.Pos())
		es := f.vc.sorts.sortOf(x.Type())
		f.vals[x] = T(es, "(select %s %s)", v.S, f.toInt(i).S)
	default:
		f.unsupported(x, "index")
	}
}

// toWord converts an index of any integer type to the word sort of the mode.
func (f *Frame) toWord(i Term, t types.Type) Term {
	ws := f.vc.sorts.wordSort()
	if i.Sort == ws {
		if _, isbv := isBV(ws); !isbv || isWordType(t) {
			return i
		}
		return i
	}
	r := f.convert(i, t, types.Typ[types.Int])
	return r.(Term)
}

// toInt turns a word term into an Int index for SMT arrays.
func (f *Frame) toInt(i Term) Term {
	if i.Sort == sInt || i.Sort == sRef || i.Sort == sIfc || i.Sort == sErr || i.Sort == sFn {
		return i // all of these are Int underneath
	}
	// small constant?
	var v uint64
	var n int
	if _, err := fmt.Sscanf(i.S, "(_ bv%d %d)", &v, &n); err == nil {
		return T(sInt, "%d", v)
	}
	fn := "bv64.to.int"
	f.vc.declareFunOnce(fn, []string{bvSort(64)}, sInt)
	return T(sInt, "(%s %s)", fn, i.S)
}

func (f *Frame) execIndexAddr(x *ssa.IndexAddr, st *State, reach Term) {
	i := f.toWord(f.term(x.Index, st), x.Index.Type())
	desc := "index:" + shortVal(x.X) + "[" + shortVal(x.Index) + "]"
	switch xt := x.X.Type().Underlying().(type) {
	case *types.Slice:
		v := f.term(x.X, st)
		es := f.vc.sorts.sortOf(xt.Elem())
		f.safety("index", desc, reach, f.inBounds(i, f.lenOf(v)), x.Pos())
		if v.Sort == sSl {
			f.vals[x] = &Addr{Kind: aHeapElem, Sl: v, Idx: i, Sort: es, Typ: xt.Elem()}
		} else {
			key := ""
			if _, isConst := x.X.(*ssa.Const); !isConst {
				key = f.verKey(x.X)
			}
			orig := v
			if ov, ok := f.vals[x.X].(Term); ok {
				orig = ov
			}
			f.vals[x] = &Addr{Kind: aSeqElem, SeqV: x.X, SeqKey: key, Seq: orig, Idx: i, Sort: es, Typ: xt.Elem()}
		}
	case *types.Pointer: // pointer to array
		arr := xt.Elem().Underlying().(*types.Array)
		f.safety("index", desc, reach, f.inBounds(i, f.wordLit(arr.Len())), x.Pos())
		es := f.vc.sorts.sortOf(arr.Elem())
		var parent *Addr
		switch b := f.value(x.X, st).(type) {
		case *Addr:
			parent = b
		case Term:
			parent = f.derefAddr(b, xt.Elem())
		}
		f.vals[x] = &Addr{Kind: aSubIndex, Parent: parent, Idx: f.toInt(i), Sort: es, Typ: arr.Elem()}
	default:
		f.unsupported(x, "indexaddr")
	}
}

func (f *Frame) execSlice(x *ssa.Slice, st *State, reach Term) Value {
	var lo, hi Term
	zero := f.wordLit(0)
	lo = zero
	if x.Low != nil {
		lo = f.toWord(f.term(x.Low, st), x.Low.Type())
	}
	desc := "slice:" + shortVal(x.X) + "[" + optVal(x.Low) + ":" + optVal(x.High) + "]"
	switch xt := x.X.Type().Underlying().(type) {
	case *types.Slice, *types.Basic:
		v := f.term(x.X, st)
		n := f.lenOf(v)
		capT := n
		if v.Sort == sSl {
			capT = T(sInt, "(Sl.cap %s)", v.S)
		} else if strings.HasPrefix(v.Sort, "Seq_") {
			// capacity of a value sequence is unknown but >= len
			f.vc.declareFunOnce("cap."+v.Sort, []string{v.Sort}, f.vc.sorts.wordSort())
			capT = T(f.vc.sorts.wordSort(), "(cap.%s %s)", v.Sort, v.S)
			f.assumeOnce(f.wLe(n, capT))
		}
		hi = n
		if x.High != nil {
			hi = f.toWord(f.term(x.High, st), x.High.Type())
		}
		bound := capT
		if v.Sort == sStr {
			bound = n
		}
		f.safety("slice", desc, reach, tAnd(f.wLe(zero, lo), f.wLe(lo, hi), f.wLe(hi, bound)), x.Pos())
		if v.Sort == sSl {
			return f.vc.define("sl", T(sSl, "(mk.Sl (Sl.base %s) %s (- %s %s) (- (Sl.cap %s) %s))", v.S, f.subOffset(v, lo), hi.S, lo.S, v.S, lo.S))
		}
		return f.subSeq(v, lo, hi)
	case *types.Pointer: // pointer to array
		arr := xt.Elem().Underlying().(*types.Array)
		n := f.wordLit(arr.Len())
		hi = n
		if x.High != nil {
			hi = f.toWord(f.term(x.High, st), x.High.Type())
		}
		f.safety("slice", desc, reach, tAnd(f.wLe(zero, lo), f.wLe(lo, hi), f.wLe(hi, n)), x.Pos())
		// the array content as a sequence
		var content Term
		switch b := f.value(x.X, st).(type) {
		case *Addr:
			content = f.load(b, st)
		case Term:
			content = f.load(f.derefAddr(b, xt.Elem()), st)
		}
		es := f.vc.sorts.sortOf(arr.Elem())
		ts := f.vc.sorts.sortOf(x.Type())
		if ts == sSl {
			// a heap slice over an array (the temporaries of variadic calls and composite
			// literals): the slice gets its own backing store holding the array's content;
			// later writes through one are not seen through the other (noted)
			f.vc.note("%s: slice of an array: the slice is a copy of the array's content (no aliasing with the array)", funcKey(f.fn))
			r := f.allocRef(st, "arrsl")
			key := f.compKey("E:", sortTag(es), es)
			old := st.get(key)
			st.set(key, f.vc.storeTerm(key, old, r, content))
			return f.vc.define("sl", T(sSl, "(mk.Sl %s %s (- %s %s) (- %d %s))", r.S, lo.S, hi.S, lo.S, arr.Len(), lo.S))
		}
		fn := "arr.seq." + sortTag(es)
		f.vc.declareFunOnce(fn, []string{content.Sort, sInt}, ts)
		whole := T(ts, "(%s %s %d)", fn, content.S, arr.Len())
		f.assumeOnce(tEq(f.seqLenRaw(whole), n))
		if f.vc.mode == ModeInt {
			// the elements of the sequence are the elements of the array (without this the
			// values that a variadic append adds to a value sequence are unknown)
			f.assumeOnce(T(sBool, "(forall ((a!q %[1]s) (n!q Int) (k!q Int)) (! (=> (and (<= 0 k!q) (< k!q n!q)) (= (at.%[2]s (%[3]s a!q n!q) k!q) (select a!q k!q))) :pattern ((at.%[2]s (%[3]s a!q n!q) k!q))))",
				content.Sort, ts, fn))
		}
		if x.Low == nil && x.High == nil {
			return whole
		}
		return f.subSeq(whole, lo, hi)
	}
	f.unsupported(x, "slice")
	return f.vals[x]
}

func optVal(v ssa.Value) string {
	if v == nil {
		return ""
	}
	return shortVal(v)
}

// subSeq returns s[lo:hi] for a value sequence or a string.
func (f *Frame) subSeq(s Term, lo, hi Term) Term {
	ws := f.vc.sorts.wordSort()
	fn := "sub." + sortTag(s.Sort)
	f.vc.declareFunOnce(fn, []string{s.Sort, ws, ws}, s.Sort)
	app := T(s.Sort, "(%s %s %s %s)", fn, s.S, lo.S, hi.S)
	if c, ok := f.vc.subCache[app.S]; ok {
		return c
	}
	// the quantified axioms below use the result in their patterns: name it by a
	// constant so that no defined (macro) symbol ends up inside a pattern
	r := f.vc.freshConst("sub", s.Sort)
	f.vc.assumeOwned(r, tEq(r, app))
	if f.vc.subCache == nil {
		f.vc.subCache = map[string]Term{}
	}
	f.vc.subCache[app.S] = r
	if s.Sort == sStr {
		f.vc.assumeOwned(r, tEq(f.lenOf(r), f.wSub(hi, lo)))
		return r
	}
	f.vc.assumeOwned(r, tEq(f.seqLenRaw(r), f.wSub(hi, lo)))
	k := Term{"k!q", ws}
	guard := tAnd(f.wLe(f.wordLit(0), k), f.wLt(k, f.wSub(hi, lo)))
	f.vc.assumeOwned(r, T(sBool, "(forall ((k!q %s)) (! (=> %s (= %s %s)) :pattern (%s)))", ws, guard.S, f.seqAt(r, k).S, f.seqAt(s, f.wAdd(lo, k)).S, f.seqAt(r, k).S))
	return r
}

// subOffset: the offset of the sub-slice v[lo:] in the backing array. For a
// non-zero lo it is named by a constant, so that quantified clauses over the
// sub-slice have the clean trigger sl.ix(off', k), and every such term is
// rewritten into the parent's frame, sl.ix(off, lo + k), where the clauses about
// the parent slice fire.
func (f *Frame) subOffset(v Term, lo Term) string {
	if lo.S == "0" || lo.Sort != sInt || boundVarRE.MatchString(lo.S+" ") || boundVarRE.MatchString(v.S+" ") {
		if lo.S == "0" {
			return fmt.Sprintf("(Sl.off %s)", v.S)
		}
		return fmt.Sprintf("(+ (Sl.off %s) %s)", v.S, lo.S)
	}
	ck := "suboff:" + v.S + ":" + lo.S
	if c, ok := f.vc.subCache[ck]; ok {
		return c.S
	}
	if f.vc.subCache == nil {
		f.vc.subCache = map[string]Term{}
	}
	off := f.vc.freshConst("off", sInt)
	f.vc.subCache[ck] = off
	f.vc.assume(T(sBool, "(= %s (+ (Sl.off %s) %s))", off.S, v.S, lo.S))
	f.vc.assumeOwned(off, T(sBool, "(forall ((k!q Int)) (! (= (sl.ix %[1]s k!q) (sl.ix (Sl.off %[2]s) (+ %[3]s k!q))) :pattern ((sl.ix %[1]s k!q))))", off.S, v.S, lo.S))
	return off.S
}

// seqOfSlice: the sequence of the elements of a heap slice in state st (for
// specification functions that are stated over sequences).
func (f *Frame) seqOfSlice(sl Term, elem types.Type, st *State) Term {
	es := f.vc.sorts.sortOf(elem)
	srt := f.vc.sorts.seqSort(es)
	key := f.compKey("E:", sortTag(es), es)
	comp := st.get(key)
	ck := "seqof:" + sl.S + ":" + comp.S
	if c, ok := f.vc.subCache[ck]; ok {
		return c
	}
	if f.vc.subCache == nil {
		f.vc.subCache = map[string]Term{}
	}
	// a function of the backing array's content, the offset and the length (not a fresh
	// constant per occurrence): the same slice reached along two paths - a phi of
	// slices, a field read twice - then yields the same sequence by congruence, which
	// uninterpreted sequences have no other way of being equal
	fn := "seqof." + sortTag(es)
	arr := fmt.Sprintf("(Array Int %s)", es)
	f.vc.declareFunOnce(fn, []string{arr, sInt, sInt}, srt)
	f.assumeOnce(T(sBool, "(forall ((c!q %[3]s) (o!q Int) (n!q Int)) (! (=> (<= 0 n!q) (= (len.%[1]s (%[2]s c!q o!q n!q)) n!q)) :pattern ((%[2]s c!q o!q n!q))))", srt, fn, arr))
	f.assumeOnce(T(sBool, "(forall ((c!q %[3]s) (o!q Int) (n!q Int) (k!q Int)) (! (=> (and (<= 0 k!q) (< k!q n!q)) (= (at.%[1]s (%[2]s c!q o!q n!q) k!q) (select c!q (sl.ix o!q k!q)))) :pattern ((at.%[1]s (%[2]s c!q o!q n!q) k!q))))", srt, fn, arr))
	r := T(srt, "(%s (select %s (Sl.base %s)) (Sl.off %s) (Sl.len %s))", fn, comp.S, sl.S, sl.S, sl.S)
	f.vc.subCache[ck] = r
	return r
}

// ---------------------------------------------------------------------------
// maps

func (f *Frame) mapKeys(mt *types.Map) (hasKey, valKey string, ks, vs string) {
	ks = f.vc.sorts.sortOf(mt.Key())
	vs = f.vc.sorts.sortOf(mt.Elem())
	tag := sortTag(ks) + "." + sortTag(vs)
	hasKey = "MH:" + tag
	valKey = "MV:" + tag
	f.vc.compSrt[hasKey] = fmt.Sprintf("(Array Int (Array %s Bool))", ks)
	f.vc.compSrt[valKey] = fmt.Sprintf("(Array Int (Array %s %s))", ks, vs)
	return
}

func (f *Frame) execLookup(x *ssa.Lookup, st *State, reach Term) {
	switch xt := x.X.Type().Underlying().(type) {
	case *types.Map:
		m := f.term(x.X, st)
		k := f.term(x.Index, st)
		hk, vk, _, vs := f.mapKeys(xt)
		has := f.vc.sel2(st.get(hk), m, k, sBool)
		val := f.vc.sel2(st.get(vk), m, k, vs)
		has = tAnd(T(sBool, "(not (= %s 0))", m.S), has)
		val = f.vc.define("mv", tIte(has, val, f.zeroOf(xt.Elem())))
		f.readFacts(val, xt.Elem(), st)
		if x.CommaOk {
			f.vals[x] = Tuple{val, has}
		} else {
			f.vals[x] = val
		}
	case *types.Basic: // string index
		v := f.term(x.X, st)
		i := f.toWord(f.term(x.Index, st), x.Index.Type())
		f.safety("index", "index:"+shortVal(x.X)+"["+shortVal(x.Index)+"]", reach, f.inBounds(i, f.lenOf(v)), x.Pos())
		if f.vc.mode == ModeBV {
			f.vals[x] = T(bvSort(8), "(gs.atbv %s %s)", v.S, i.S)
		} else {
			f.vals[x] = T(bvSort(8), "(gs.at %s %s)", v.S, i.S)
		}
	default:
		f.unsupported(x, "lookup")
	}
}

func (f *Frame) mapUpdate(x *ssa.MapUpdate, st *State, reach Term) {
	mt := x.Map.Type().Underlying().(*types.Map)
	m := f.term(x.Map, st)
	k := f.term(x.Key, st)
	v := f.term(x.Value, st)
	hk, vk, _, _ := f.mapKeys(mt)
	f.safety("nilmap", "mapupdate:"+shortVal(x.Map), reach, T(sBool, "(not (= %s 0))", m.S), x.Pos())
	f.frameCheck(hk, m, st, reach, x.Pos())
	oh := st.get(hk)
	ov := st.get(vk)
	st.set(hk, f.vc.store2Term(hk, oh, m, k, tTrue()))
	st.set(vk, f.vc.store2Term(vk, ov, m, k, v))
}

func (f *Frame) mapDelete(mt *types.Map, m, k Term, st *State, reach Term, p token.Pos) {
	hk, _, _, _ := f.mapKeys(mt)
	f.frameCheck(hk, m, st, reach, p)
	oh := st.get(hk)
	st.set(hk, f.vc.define(hk, T(oh.Sort, "(ite (= %s 0) %s (store %s %s (store (select %s %s) %s false)))", m.S, oh.S, oh.S, m.S, oh.S, m.S, k.S)))
}

func (f *Frame) makeMap(x *ssa.MakeMap, st *State) Value {
	mt := x.Type().Underlying().(*types.Map)
	r := f.allocRef(st, "map")
	hk, _, ks, _ := f.mapKeys(mt)
	oh := st.get(hk)
	st.set(hk, f.vc.define(hk, T(oh.Sort, "(store %s %s ((as const (Array %s Bool)) false))", oh.S, r.S, ks)))
	return r
}

func (f *Frame) execNext(x *ssa.Next, st *State) {
	rng := x.Iter.(*ssa.Range)
	tup := x.Type().(*types.Tuple)
	ok := f.vc.freshConst("next.ok", sBool)
	if x.IsString {
		f.vals[x] = Tuple{ok, f.havocValue(tup.At(1).Type(), "next.i"), f.havocValue(tup.At(2).Type(), "next.r")}
		return
	}
	mt, isMap := rng.X.Type().Underlying().(*types.Map)
	if !isMap {
		f.vals[x] = Tuple{ok, f.havocValue(tup.At(1).Type(), "next.k"), f.havocValue(tup.At(2).Type(), "next.v")}
		return
	}
	m := f.term(rng.X, st)
	hk, vk, ks, vs := f.mapKeys(mt)
	k := f.vc.freshConst("next.k", ks)
	var kv, vv Value = k, nil
	val := T(vs, "(select (select %s %s) %s)", st.get(vk).S, m.S, k.S)
	f.vc.assume(tImp(ok, T(sBool, "(and (not (= %s 0)) (select (select %s %s) %s))", m.S, st.get(hk).S, m.S, k.S)))
	// the keys visited so far (ghost): each key is yielded at most once, and when the
	// iteration ends every key that is (still) in the map has been visited
	rk := f.rangeKey(rng, ks)
	seen := st.get(rk)
	f.vc.assume(tImp(ok, T(sBool, "(not (select %s %s))", seen.S, k.S)))
	f.vc.assume(tImp(tNot(ok), T(sBool, "(forall ((k!q %s)) (! (=> (and (not (= %s 0)) (select (select %s %s) k!q)) (select %s k!q)) :pattern ((select (select %s %s) k!q)) :pattern ((select %s k!q))))",
		ks, m.S, st.get(hk).S, m.S, seen.S, st.get(hk).S, m.S, seen.S)))
	st.set(rk, f.vc.define("seen", tIte(ok, T(seen.Sort, "(store %s %s true)", seen.S, k.S), seen)))
	vdef := f.vc.define("next.v", val)
	f.readFacts(vdef, mt.Elem(), st)
	vv = vdef
	if tup.At(1).Type() == nil || isInvalid(tup.At(1).Type()) {
		kv = Term{"0", sInt}
	}
	if tup.At(2).Type() == nil || isInvalid(tup.At(2).Type()) {
		vv = Term{"0", sInt}
	}
	f.vals[x] = Tuple{ok, kv, vv}
}

// rangeKey is the state component holding the set of keys a map range has visited.
func (f *Frame) rangeKey(rng *ssa.Range, keySort string) string {
	key := fmt.Sprintf("R:f%d:%s", f.fnum(), rng.Name())
	f.vc.compSrt[key] = fmt.Sprintf("(Array %s Bool)", keySort)
	return key
}

func isInvalid(t types.Type) bool {
	b, ok := t.(*types.Basic)
	return ok && b.Kind() == types.Invalid
}

// ---------------------------------------------------------------------------
// make([]T, len, cap)

func (f *Frame) makeSlice(x *ssa.MakeSlice, st *State, reach Term) Value {
	n := f.toWord(f.term(x.Len, st), x.Len.Type())
	c := f.toWord(f.term(x.Cap, st), x.Cap.Type())
	f.safety("makesize", "make:"+shortVal(x.Len), reach, tAnd(f.wLe(f.wordLit(0), n), f.wLe(n, c)), x.Pos())
	st2 := x.Type().Underlying().(*types.Slice)
	ts := f.vc.sorts.sortOf(x.Type())
	zero := f.zeroOf(st2.Elem())
	if ts == sSl {
		r := f.allocRef(st, "mk")
		key := f.compKey("E:", sortTag(zero.Sort), zero.Sort)
		old := st.get(key)
		st.set(key, f.vc.define(key, T(old.Sort, "(store %s %s %s)", old.S, r.S, f.zeroOfSort("(Array Int "+zero.Sort+")", types.NewArray(st2.Elem(), 0)).S)))
		return f.vc.define("mk", T(sSl, "(mk.Sl %s 0 %s %s)", r.S, n.S, c.S))
	}
	r := f.vc.freshConst("mk", ts)
	f.vc.assume(tEq(f.seqLenRaw(r), n))
	ws := f.vc.sorts.wordSort()
	k := Term{"k!q", ws}
	f.vc.assumeOwned(r, T(sBool, "(forall ((k!q %s)) (! (= %s %s) :pattern (%s)))", ws, f.seqAt(r, k).S, zero.S, f.seqAt(r, k).S))
	f.vc.declareFunOnce("cap."+ts, []string{ts}, ws)
	f.vc.assume(tEq(T(ws, "(cap.%s %s)", ts, r.S), c))
	f.vc.declareFunOnce("isnil."+ts, []string{ts}, sBool)
	f.vc.assume(T(sBool, "(not (isnil.%s %s))", ts, r.S))
	return r
}
