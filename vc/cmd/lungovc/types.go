package main

import (
	"fmt"
	"go/types"
	"strings"
)

// ArithMode selects how the platform word types (int, uint, uintptr, and with
// them len/cap/indices) are encoded. Fixed-width integer types are bit-vectors
// in both modes.
type ArithMode int

const (
	ModeInt ArithMode = iota // int is SMT Int with exact wrap-around modelling for + and -
	ModeBV                   // int is a 64-bit bit-vector
)

const basePrelude = `
(define-sort Ref () Int)
(define-sort Err () Int)
(define-sort Ifc () Int)
(define-sort Fn () Int)
(define-sort F64 () (_ FloatingPoint 11 53))
(define-sort F32 () (_ FloatingPoint 8 24))
(declare-sort Str 0)
(declare-sort Seq_S_primitive_E 0)
(declare-sort Seq_Val 0)
(declare-sort Seq_u8 0)
(declare-sort Seq_Ref 0)
(declare-datatypes ((Sl 0)) (((mk.Sl (Sl.base Int) (Sl.off Int) (Sl.len Int) (Sl.cap Int)))))
(declare-datatypes ((S_primitive_Decimal128 0)) (((mk.S_primitive_Decimal128 (S_primitive_Decimal128.h (_ BitVec 64)) (S_primitive_Decimal128.l (_ BitVec 64))))))
(declare-datatypes ((S_primitive_Binary 0)) (((mk.S_primitive_Binary (S_primitive_Binary.Subtype (_ BitVec 8)) (S_primitive_Binary.Data Seq_u8)))))
(declare-datatypes ((S_primitive_Timestamp 0)) (((mk.S_primitive_Timestamp (S_primitive_Timestamp.T (_ BitVec 32)) (S_primitive_Timestamp.I (_ BitVec 32))))))
(declare-datatypes ((S_primitive_Regex 0)) (((mk.S_primitive_Regex (S_primitive_Regex.Pattern Str) (S_primitive_Regex.Options Str)))))
(declare-datatypes ((Val 0)) ((
  (VNil) (VNull) (VMissing)
  (VI32 (i32 (_ BitVec 32))) (VI64 (i64 (_ BitVec 64))) (VF64 (f64 (_ FloatingPoint 11 53)))
  (VDec (dec S_primitive_Decimal128)) (VStr (str Str))
  (VDoc (doc Seq_S_primitive_E)) (VArr (arr Seq_Val))
  (VBin (bin S_primitive_Binary)) (VOid (oid (Array Int (_ BitVec 8)))) (VBool (bool Bool))
  (VDate (date (_ BitVec 64))) (VTs (ts S_primitive_Timestamp)) (VRegex (regex S_primitive_Regex))
  (VOther (tid Int) (pay Int)))))
(declare-datatypes ((S_primitive_E 0)) (((mk.S_primitive_E (S_primitive_E.Key Str) (S_primitive_E.Value Val)))))
(declare-fun len.Seq_S_primitive_E (Seq_S_primitive_E) Int)
(declare-fun at.Seq_S_primitive_E (Seq_S_primitive_E Int) S_primitive_E)
(declare-fun len.Seq_Val (Seq_Val) Int)
(declare-fun at.Seq_Val (Seq_Val Int) Val)
(declare-fun len.Seq_u8 (Seq_u8) Int)
(declare-fun at.Seq_u8 (Seq_u8 Int) (_ BitVec 8))
(declare-fun lenbv.Seq_S_primitive_E (Seq_S_primitive_E) (_ BitVec 64))
(declare-fun atbv.Seq_S_primitive_E (Seq_S_primitive_E (_ BitVec 64)) S_primitive_E)
(declare-fun lenbv.Seq_Val (Seq_Val) (_ BitVec 64))
(declare-fun atbv.Seq_Val (Seq_Val (_ BitVec 64)) Val)
(declare-fun lenbv.Seq_u8 (Seq_u8) (_ BitVec 64))
(declare-fun atbv.Seq_u8 (Seq_u8 (_ BitVec 64)) (_ BitVec 8))
(declare-fun len.Seq_Ref (Seq_Ref) Int)
(declare-fun at.Seq_Ref (Seq_Ref Int) Int)
(declare-fun lenbv.Seq_Ref (Seq_Ref) (_ BitVec 64))
(declare-fun atbv.Seq_Ref (Seq_Ref (_ BitVec 64)) Int)
(declare-fun gs.len (Str) Int)
(declare-fun gs.lenbv (Str) (_ BitVec 64))
(declare-fun gs.at (Str Int) (_ BitVec 8))
(declare-fun gs.atbv (Str (_ BitVec 64)) (_ BitVec 8))
(declare-fun alloc (Int) Int)
(declare-fun sl.ix (Int Int) Int)
(assert (forall ((a Int) (b Int)) (! (= (sl.ix a b) (+ a b)) :pattern ((sl.ix a b)))))
(declare-sort Dec 0)
(declare-fun dec.zero () Dec)
(declare-fun arr.seq.u8 ((Array Int (_ BitVec 8)) Int) Seq_u8)
`

// preludeFuns are declared by the base prelude (never re-declared on demand).
var preludeFuns = map[string]bool{"arr.seq.u8": true, "dec.zero": true}

// baseSorts are the sorts declared by the base prelude.
var baseStructs = map[string]bool{
	"S_primitive_Decimal128": true, "S_primitive_Binary": true, "S_primitive_Timestamp": true,
	"S_primitive_Regex": true, "S_primitive_E": true,
}

// StructInfo describes an SMT datatype generated for a Go struct type.
type StructInfo struct {
	Sort   string
	Fields []string // field names
	FSorts []string
}

// Sorts maps Go types to SMT sorts for one function (one mode).
type Sorts struct {
	mode    ArithMode
	structs map[string]*StructInfo // by sort name
	order   []string               // declaration order of generated structs / seq sorts
	seqs    map[string]string      // seq sort -> elem sort
	typeIDs map[string]int
	heapAll bool              // pragma: all slices (except E/Val/byte) on the heap (default in int mode)
	owner   map[string]string // struct sort name -> full path of the Go type it stands for
}

func newSorts(mode ArithMode) *Sorts {
	s := &Sorts{mode: mode, structs: map[string]*StructInfo{}, seqs: map[string]string{}, typeIDs: map[string]int{}}
	s.structs["S_primitive_Decimal128"] = &StructInfo{"S_primitive_Decimal128", []string{"h", "l"}, []string{bvSort(64), bvSort(64)}}
	s.structs["S_primitive_Binary"] = &StructInfo{"S_primitive_Binary", []string{"Subtype", "Data"}, []string{bvSort(8), "Seq_u8"}}
	s.structs["S_primitive_Timestamp"] = &StructInfo{"S_primitive_Timestamp", []string{"T", "I"}, []string{bvSort(32), bvSort(32)}}
	s.structs["S_primitive_Regex"] = &StructInfo{"S_primitive_Regex", []string{"Pattern", "Options"}, []string{sStr, sStr}}
	s.structs["S_primitive_E"] = &StructInfo{"S_primitive_E", []string{"Key", "Value"}, []string{sStr, sVal}}
	s.seqs["Seq_S_primitive_E"] = "S_primitive_E"
	s.seqs["Seq_Val"] = sVal
	s.seqs["Seq_u8"] = bvSort(8)
	s.seqs["Seq_Ref"] = sRef
	s.heapAll = mode == ModeInt
	return s
}

func (s *Sorts) wordSort() string {
	if s.mode == ModeBV {
		return bvSort(64)
	}
	return sInt
}

func isWordKind(k types.BasicKind) bool {
	return k == types.Int || k == types.Uint || k == types.Uintptr || k == types.UntypedInt || k == types.UntypedRune
}

func isErrorType(t types.Type) bool {
	return types.Identical(t, types.Universe.Lookup("error").Type())
}

func isEmptyInterface(t types.Type) bool {
	it, ok := t.Underlying().(*types.Interface)
	return ok && it.NumMethods() == 0 && !isTypeParam(t)
}

func isTypeParam(t types.Type) bool {
	_, ok := t.(*types.TypeParam)
	return ok
}

// basicInfo returns (bits, signed, isInteger) for integer basic types.
func intInfo(t types.Type) (bits int, signed bool, ok bool) {
	b, isB := t.Underlying().(*types.Basic)
	if !isB {
		return 0, false, false
	}
	switch b.Kind() {
	case types.Int, types.Int64, types.UntypedInt, types.UntypedRune:
		return 64, true, true
	case types.Uint, types.Uint64, types.Uintptr:
		return 64, false, true
	case types.Int32:
		return 32, true, true
	case types.Uint32:
		return 32, false, true
	case types.Int16:
		return 16, true, true
	case types.Uint16:
		return 16, false, true
	case types.Int8:
		return 8, true, true
	case types.Uint8:
		return 8, false, true
	}
	return 0, false, false
}

func isWordType(t types.Type) bool {
	b, ok := t.Underlying().(*types.Basic)
	return ok && isWordKind(b.Kind())
}

func sortTag(sort string) string {
	switch sort {
	case bvSort(8):
		return "u8"
	case bvSort(16):
		return "u16"
	case bvSort(32):
		return "u32"
	case bvSort(64):
		return "u64"
	}
	return smtName(sort)
}

// valueSeqElem reports whether slices with this element sort are modelled as
// immutable value sequences (true) or as heap slices (false).
func (s *Sorts) valueSeqElem(elemSort string) bool {
	if elemSort == "S_primitive_E" || elemSort == sVal || elemSort == bvSort(8) {
		return true
	}
	return !s.heapAll
}

func (s *Sorts) seqSort(elemSort string) string {
	name := "Seq_" + sortTag(elemSort)
	if _, ok := s.seqs[name]; !ok {
		s.seqs[name] = elemSort
		s.order = append(s.order, name)
	}
	return name
}

func typeKey(t types.Type) string {
	t = types.Unalias(t)
	return types.TypeString(t, func(p *types.Package) string { return p.Name() })
}

func (s *Sorts) sortOf(t types.Type) string {
	if isErrorType(t) {
		return sErr
	}
	if typeKey(t) == "decimal.Decimal" {
		return "Dec"
	}
	switch u := t.Underlying().(type) {
	case *types.Basic:
		switch {
		case u.Kind() == types.Bool || u.Kind() == types.UntypedBool:
			return sBool
		case u.Kind() == types.String || u.Kind() == types.UntypedString:
			return sStr
		case u.Kind() == types.Float64 || u.Kind() == types.UntypedFloat:
			return sF64
		case u.Kind() == types.Float32:
			return sF32
		case u.Kind() == types.UnsafePointer:
			return sRef
		case u.Kind() == types.UntypedNil:
			return sRef
		case isWordKind(u.Kind()):
			return s.wordSort()
		}
		if bits, _, ok := intInfo(t); ok {
			return bvSort(bits)
		}
		return sInt // complex etc: opaque
	case *types.Pointer, *types.Map, *types.Chan:
		return sRef
	case *types.Signature:
		return sFn
	case *types.Interface:
		if isEmptyInterface(t) {
			return sVal
		}
		return sIfc
	case *types.Slice:
		es := s.sortOf(u.Elem())
		if s.valueSeqElem(es) {
			return s.seqSort(es)
		}
		return sSl
	case *types.Array:
		return "(Array Int " + s.sortOf(u.Elem()) + ")"
	case *types.Struct:
		return s.structSort(t, u)
	case *types.Tuple:
		return "TUPLE"
	case *types.TypeParam:
		return sInt
	}
	return sInt
}

func (s *Sorts) structSort(t types.Type, u *types.Struct) string {
	var name string
	if n, ok := t.(*types.Named); ok {
		pk := ""
		if n.Obj().Pkg() != nil {
			pk = n.Obj().Pkg().Name() + "_"
		}
		name = "S_" + pk + n.Obj().Name()
		if n.TypeArgs() != nil && n.TypeArgs().Len() > 0 {
			name += "_" + smtName(typeKey(n.TypeArgs().At(0)))
		}
		// two packages with the same name (sync, internal/sync) may declare the same type name
		full := n.Obj().Name()
		if n.Obj().Pkg() != nil {
			full = n.Obj().Pkg().Path() + "." + full
		}
		if s.owner == nil {
			s.owner = map[string]string{}
		}
		if prev, ok := s.owner[name]; ok && prev != full {
			name = fmt.Sprintf("%s_%x", name, hashString(full)%0xffff)
		}
		s.owner[name] = full
	} else if a, ok := t.(*types.Alias); ok {
		return s.structSort(types.Unalias(a), u)
	} else {
		name = "S_anon_" + smtName(typeKey(u))
		if len(name) > 60 {
			name = fmt.Sprintf("S_anon_%x", hashString(typeKey(u)))
		}
	}
	if _, ok := s.structs[name]; ok {
		return name
	}
	info := &StructInfo{Sort: name}
	s.structs[name] = info // guard against recursion
	for i := 0; i < u.NumFields(); i++ {
		f := u.Field(i)
		info.Fields = append(info.Fields, f.Name())
		info.FSorts = append(info.FSorts, s.sortOf(f.Type()))
	}
	s.order = append(s.order, name)
	return name
}

func hashString(s string) uint64 {
	var h uint64 = 1469598103934665603
	for i := 0; i < len(s); i++ {
		h ^= uint64(s[i])
		h *= 1099511628211
	}
	return h
}

// decls returns the declarations of all generated sorts, in dependency order.
func (s *Sorts) decls() string {
	var b strings.Builder
	for _, name := range s.order {
		if es, ok := s.seqs[name]; ok {
			fmt.Fprintf(&b, "(declare-sort %s 0)\n", name)
			_ = es
			continue
		}
	}
	for _, name := range s.order {
		if es, ok := s.seqs[name]; ok {
			_ = es
			continue
		}
		info := s.structs[name]
		if len(info.Fields) == 0 {
			fmt.Fprintf(&b, "(declare-datatypes ((%s 0)) (((mk.%s))))\n", name, name)
			continue
		}
		fmt.Fprintf(&b, "(declare-datatypes ((%s 0)) (((mk.%s", name, name)
		for i, f := range info.Fields {
			fmt.Fprintf(&b, " (%s.%s %s)", name, smtName(f), info.FSorts[i])
		}
		b.WriteString("))))\n")
	}
	for _, name := range s.order {
		if es, ok := s.seqs[name]; ok {
			fmt.Fprintf(&b, "(declare-fun len.%s (%s) Int)\n(declare-fun at.%s (%s Int) %s)\n", name, name, name, name, es)
			fmt.Fprintf(&b, "(declare-fun lenbv.%s (%s) (_ BitVec 64))\n(declare-fun atbv.%s (%s (_ BitVec 64)) %s)\n", name, name, name, name, es)
		}
	}
	return b.String()
}

// typeID gives a stable small integer per Go type (for VOther).
func (s *Sorts) typeID(t types.Type) int {
	k := typeKey(t)
	if id, ok := s.typeIDs[k]; ok {
		return id
	}
	id := int(hashString(k)%1000000) + 100
	s.typeIDs[k] = id
	return id
}

// valCtor returns the Val constructor / accessor pair for a concrete Go type
// boxed in interface{}; ok=false means the type falls under VOther.
func valCtor(t types.Type) (ctor, acc string, ok bool) {
	k := typeKey(t)
	switch k {
	case "int32":
		return "VI32", "i32", true
	case "int64":
		return "VI64", "i64", true
	case "float64":
		return "VF64", "f64", true
	case "string":
		return "VStr", "str", true
	case "bool":
		return "VBool", "bool", true
	case "primitive.Decimal128":
		return "VDec", "dec", true
	case "primitive.D", "bson.D":
		return "VDoc", "doc", true
	case "primitive.A", "bson.A":
		return "VArr", "arr", true
	case "primitive.Binary":
		return "VBin", "bin", true
	case "primitive.ObjectID":
		return "VOid", "oid", true
	case "primitive.DateTime":
		return "VDate", "date", true
	case "primitive.Timestamp":
		return "VTs", "ts", true
	case "primitive.Regex":
		return "VRegex", "regex", true
	case "primitive.Null":
		return "VNull", "", true
	case "bsonkit.MissingType":
		return "VMissing", "", true
	}
	return "", "", false
}
