; ---------------------------------------------------------------------------
; Abstract view of github.com/tidwall/btree as bsonkit.Index uses it (properties
; C07, C15): a tree is the set of the entries it holds (ghost.tree, declared in
; btree.contracts). The order of a tree is the less function it was built with;
; two entries are equivalent - the tree keeps at most one of them - when neither
; is less than the other. entryEqv(tree, a, b) is that relation, left
; uninterpreted except for being an equivalence (assumed: it is one exactly when
; less is a strict weak order, which for bsonkit.NewIndex's less follows from
; the BSON order being a total preorder, specs/order.smt2).
(declare-fun entryEqv (Int S_bsonkit_indexEntry S_bsonkit_indexEntry) Bool)
(assert (forall ((t Int) (a S_bsonkit_indexEntry)) (! (entryEqv t a a) :pattern ((entryEqv t a a)))))
(assert (forall ((t Int) (a S_bsonkit_indexEntry) (b S_bsonkit_indexEntry)) (! (= (entryEqv t a b) (entryEqv t b a)) :pattern ((entryEqv t a b)))))
(assert (forall ((t Int) (a S_bsonkit_indexEntry) (b S_bsonkit_indexEntry) (c S_bsonkit_indexEntry))
  (! (=> (and (entryEqv t a b) (entryEqv t b c)) (entryEqv t a c)) :pattern ((entryEqv t a b) (entryEqv t b c)))))
