package main

import (
	"fmt"
	"go/ast"
	"go/parser"
	"go/token"
	"go/types"
	"strconv"
	"strings"

	"golang.org/x/tools/go/ssa"
)

// EV is an environment entry: a value with its Go type (nil for spec-level values).
type EV struct {
	V Value
	T types.Type
}

// Env translates contract expressions into SMT terms.
type Env struct {
	f      *Frame
	vars   map[string]EV
	st     *State // current state
	old    *State // state for old(...)
	oldEnv *Env   // variable bindings for old(...), if different
	pkg    *types.Package
	lookup func(name string) (EV, bool)
	// rangeKey: the ghost set of keys visited by the map range of the loop the clause belongs to
	rangeKey string
	// curParams: a parameter name means its current value (loop clauses), not the value at entry
	curParams bool
	// loopPre: the environment in which before(...) of a loop clause is evaluated
	// (state and loop-carried values when the loop was entered)
	loopPre *Env
}

func (e *Env) clone() *Env {
	n := &Env{f: e.f, vars: map[string]EV{}, st: e.st, old: e.old, oldEnv: e.oldEnv, pkg: e.pkg, lookup: e.lookup, rangeKey: e.rangeKey, curParams: e.curParams, loopPre: e.loopPre}
	for k, v := range e.vars {
		n.vars[k] = v
	}
	return n
}

// atEntry returns the environment in which every state reference means the entry state.
func (e *Env) atEntry() *Env {
	n := e.clone()
	n.st = e.old
	return n
}

func (e *Env) trBool(text string) (Term, error) {
	t, err := e.tr(text, sBool)
	if err != nil {
		return t, err
	}
	if t.Sort != sBool {
		return t, fmt.Errorf("expression %q is not boolean (%s)", text, t.Sort)
	}
	return t, nil
}

func (e *Env) tr(text string, hint string) (res Term, err error) {
	pk := ""
	if e.pkg != nil {
		pk = shortPkg(e.pkg.Path())
	}
	src := desugarImplies(expandMacros(text, pk, parsedMacros))
	ex, perr := parser.ParseExpr(src)
	if perr != nil {
		return Term{}, fmt.Errorf("parse %q: %v", src, perr)
	}
	defer func() {
		if r := recover(); r != nil {
			err = fmt.Errorf("translate %q: %v", text, r)
		}
	}()
	t, _ := e.expr(ex, hint)
	return t, nil
}

// letFn is the value of a `let` abbreviation: translated in the environment where it is used.
type letFn func(*Env) (Term, types.Type)

// trTyped is tr that also returns the Go type of the expression (nil for spec-level values).
func (e *Env) trTyped(text string, hint string) (res Term, ty types.Type, err error) {
	pk := ""
	if e.pkg != nil {
		pk = shortPkg(e.pkg.Path())
	}
	src := desugarImplies(expandMacros(text, pk, parsedMacros))
	ex, perr := parser.ParseExpr(src)
	if perr != nil {
		return Term{}, nil, fmt.Errorf("parse %q: %v", src, perr)
	}
	defer func() {
		if r := recover(); r != nil {
			err = fmt.Errorf("translate %q: %v", text, r)
		}
	}()
	t, tt := e.expr(ex, hint)
	return t, tt, nil
}

func (e *Env) sorts() *Sorts { return e.f.vc.sorts }

func (e *Env) expr(x ast.Expr, hint string) (Term, types.Type) {
	f := e.f
	switch n := x.(type) {
	case *ast.ParenExpr:
		return e.expr(n.X, hint)
	case *ast.BasicLit:
		return e.literal(n, hint), nil
	case *ast.Ident:
		return e.ident(n.Name, hint)
	case *ast.UnaryExpr:
		switch n.Op {
		case token.NOT:
			t, _ := e.expr(n.X, sBool)
			return tNot(t), nil
		case token.SUB:
			if lit, ok := n.X.(*ast.BasicLit); ok {
				return e.literalNeg(lit, hint), nil
			}
			t, ty := e.expr(n.X, hint)
			if _, ok := isBV(t.Sort); ok {
				return T(t.Sort, "(bvneg %s)", t.S), ty
			}
			return T(t.Sort, "(- %s)", t.S), ty
		}
	case *ast.BinaryExpr:
		return e.binary(n, hint)
	case *ast.StarExpr:
		p, pt := e.expr(n.X, sRef)
		if pt == nil {
			panic("deref of untyped value")
		}
		elem := derefType(pt)
		if _, isS := elem.Underlying().(*types.Struct); isS {
			return f.loadStruct(p, elem, e.st), elem
		}
		return f.load(f.derefAddr(p, elem), e.st), elem
	case *ast.SelectorExpr:
		if id, ok := n.X.(*ast.Ident); ok && id.Name == "spec" {
			return e.specConst(n.Sel.Name), nil
		}
		if id, ok := n.X.(*ast.Ident); ok && id.Name == "ghost" {
			srt, ok := parsedGhosts[n.Sel.Name]
			if !ok {
				panic("unknown ghost variable " + n.Sel.Name)
			}
			key := "X:ghost." + n.Sel.Name
			f.vc.ensureSortsIn(srt)
			f.vc.compSrt[key] = normSort(srt)
			return e.st.get(key), nil
		}
		base, bt := e.expr(n.X, "")
		return e.selectField(base, bt, n.Sel.Name)
	case *ast.IndexExpr:
		base, bt := e.expr(n.X, "")
		return e.index(base, bt, n.Index)
	case *ast.SliceExpr:
		base, bt := e.expr(n.X, "")
		lo := f.wordLit(0)
		if n.Low != nil {
			lo, _ = e.expr(n.Low, f.vc.sorts.wordSort())
		}
		hi := f.lenOf(base)
		if n.High != nil {
			hi, _ = e.expr(n.High, f.vc.sorts.wordSort())
		}
		if base.Sort == sSl {
			return T(sSl, "(mk.Sl (Sl.base %s) %s (- %s %s) (- (Sl.cap %s) %s))", base.S, f.subOffset(base, lo), hi.S, lo.S, base.S, lo.S), bt
		}
		return f.subSeq(base, lo, hi), bt
	case *ast.CallExpr:
		return e.callExpr(n, hint)
	}
	panic(fmt.Sprintf("unsupported expression %T", x))
}

func (e *Env) literal(n *ast.BasicLit, hint string) Term {
	switch n.Kind {
	case token.INT:
		v, err := strconv.ParseUint(n.Value, 0, 64)
		if err != nil {
			panic("bad int literal " + n.Value)
		}
		if bits, ok := isBV(hint); ok {
			return Term{bvLit(v, bits), hint}
		}
		if hint == sF64 {
			return e.f.floatLit(float64(v), sF64)
		}
		if hint == "" {
			return Term{fmt.Sprintf("%d", v), e.f.vc.sorts.wordSortLit()}.fixWord(e.f, v)
		}
		return Term{fmt.Sprintf("%d", v), sInt}
	case token.FLOAT:
		v, _ := strconv.ParseFloat(n.Value, 64)
		return e.f.floatLit(v, sF64)
	case token.STRING:
		s, _ := strconv.Unquote(n.Value)
		return e.f.vc.strLit(s)
	}
	panic("unsupported literal " + n.Value)
}

func (s *Sorts) wordSortLit() string { return s.wordSort() }

func (t Term) fixWord(f *Frame, v uint64) Term {
	if f.vc.mode == ModeBV {
		return Term{bvLit(v, 64), bvSort(64)}
	}
	return Term{fmt.Sprintf("%d", v), sInt}
}

func (e *Env) literalNeg(n *ast.BasicLit, hint string) Term {
	if n.Kind == token.INT {
		v, _ := strconv.ParseUint(n.Value, 0, 64)
		if bits, ok := isBV(hint); ok {
			return Term{bvLit(uint64(-int64(v)), bits), hint}
		}
		if hint == "" && e.f.vc.mode == ModeBV {
			return Term{bvLit(uint64(-int64(v)), 64), bvSort(64)}
		}
		if hint == sF64 {
			return e.f.floatLit(-float64(v), sF64)
		}
		return Term{fmt.Sprintf("(- %d)", v), sInt}
	}
	if n.Kind == token.FLOAT {
		v, _ := strconv.ParseFloat(n.Value, 64)
		return e.f.floatLit(-v, sF64)
	}
	panic("bad negative literal")
}

func (e *Env) ident(name string, hint string) (Term, types.Type) {
	f := e.f
	switch name {
	case "true":
		return tTrue(), types.Typ[types.Bool]
	case "false":
		return tFalse(), types.Typ[types.Bool]
	case "nil":
		switch {
		case hint == sVal:
			return Term{"VNil", sVal}, nil
		case hint == sSl:
			return Term{"(mk.Sl 0 0 0 0)", sSl}, nil
		case strings.HasPrefix(hint, "Seq_"):
			return f.zeroOfSort(hint, nil), nil
		case hint == "":
			return Term{"0", sRef}, nil
		}
		return Term{"0", hint}, nil
	case "now":
		return e.st.now, nil
	case "now0":
		// the allocation clock at entry of the function the clause belongs to
		if e.old != nil {
			return e.old.now, nil
		}
		return Term{"now!0", sInt}, nil
	}
	if ev, ok := e.vars[name]; ok {
		if lf, isLet := ev.V.(letFn); isLet {
			return lf(e)
		}
		// a parameter that the body assigns to: its current value (old(...) has no lookup
		// and keeps meaning the value at entry)
		if e.lookup != nil && f.fn != nil && e.curParams {
			for _, p := range f.fn.Params {
				if p.Name() == name && len(f.names[name]) > 0 {
					if lv, ok := e.lookup(name); ok {
						return e.evTerm(lv), lv.T
					}
				}
			}
		}
		return e.evTerm(ev), ev.T
	}
	if e.lookup != nil {
		if ev, ok := e.lookup(name); ok {
			return e.evTerm(ev), ev.T
		}
	}
	// a local that was renamed since the contract was written (locals.go)
	if to, ok := e.f.aliasOf(name); ok {
		if ev, ok := e.vars[to]; ok {
			return e.evTerm(ev), ev.T
		}
		if e.lookup != nil {
			if ev, ok := e.lookup(to); ok {
				return e.evTerm(ev), ev.T
			}
		}
	}
	// package-level constant?
	if e.pkg != nil {
		if obj := e.pkg.Scope().Lookup(name); obj != nil {
			if c, ok := obj.(*types.Const); ok {
				return f.constTerm(ssa.NewConst(c.Val(), c.Type())), c.Type()
			}
			if v, ok := obj.(*types.Var); ok {
				// a package-level variable: its value in the current state
				if sp := f.vc.w.pkgs[e.pkg.Path()]; sp != nil {
					if g, ok := sp.Members[name].(*ssa.Global); ok {
						if a, ok := f.value(g, e.st).(*Addr); ok {
							return f.load(a, e.st), v.Type()
						}
					}
				}
			}
		}
	}
	panic("unknown identifier " + name)
}

func (e *Env) evTerm(ev EV) Term {
	switch v := ev.V.(type) {
	case Term:
		if strings.HasPrefix(v.Sort, "Seq_") {
			return v
		}
		return v
	case *Addr:
		if v.Kind == aCell || v.Kind == aSubField || v.Kind == aObjField {
			return e.f.load(v, e.st)
		}
		return e.f.addrToTerm(v)
	case *Closure:
		return v.Term
	case func(*Env) Term:
		return v(e)
	}
	panic("environment value is not a term")
}

func (e *Env) specConst(name string) Term {
	sf := e.f.vc.w.specFn[name]
	if sf == nil {
		// datatype constructors of the base prelude (VNil, ...)
		switch name {
		case "VNil", "VNull", "VMissing":
			return Term{name, sVal}
		}
		panic("unknown spec symbol " + name)
	}
	e.f.vc.uses[e.f.vc.w.specMod[name]] = true
	return Term{name, normSort(sf.Ret)}
}

func normSort(s string) string {
	switch s {
	case "(_ FloatingPoint 11 53)":
		return sF64
	case "Int":
		return sInt
	}
	return s
}

func (e *Env) binary(n *ast.BinaryExpr, hint string) (Term, types.Type) {
	f := e.f
	switch n.Op {
	case token.LAND:
		a, _ := e.expr(n.X, sBool)
		b, _ := e.expr(n.Y, sBool)
		return tAnd(a, b), nil
	case token.LOR:
		a, _ := e.expr(n.X, sBool)
		b, _ := e.expr(n.Y, sBool)
		return tOr(a, b), nil
	}
	// operands: translate the non-literal side first to learn the sort
	var a, b Term
	var at, bt types.Type
	opHint := ""
	switch n.Op {
	case token.ADD, token.SUB, token.MUL, token.QUO, token.REM:
		opHint = hint
	}
	if isLitExpr(n.X) && !isLitExpr(n.Y) {
		b, bt = e.expr(n.Y, opHint)
		a, at = e.expr(n.X, b.Sort)
	} else {
		a, at = e.expr(n.X, opHint)
		b, bt = e.expr(n.Y, a.Sort)
	}
	_ = bt
	if a.Sort != b.Sort {
		panic(fmt.Sprintf("sort mismatch in %s: %s vs %s", n.Op, a.Sort, b.Sort))
	}
	signed := true
	if at != nil {
		if _, s, ok := intInfo(at); ok {
			signed = s
		}
	} else if bt != nil {
		if _, s, ok := intInfo(bt); ok {
			signed = s
		}
	}
	_, bv := isBV(a.Sort)
	fp := a.Sort == sF64 || a.Sort == sF32
	switch n.Op {
	case token.EQL:
		if fp {
			return T(sBool, "(fp.eq %s %s)", a.S, b.S), nil
		}
		return tEq(a, b), nil
	case token.NEQ:
		if fp {
			return T(sBool, "(not (fp.eq %s %s))", a.S, b.S), nil
		}
		return tNot(tEq(a, b)), nil
	case token.LSS, token.LEQ, token.GTR, token.GEQ:
		if fp {
			m := map[token.Token]string{token.LSS: "fp.lt", token.LEQ: "fp.leq", token.GTR: "fp.gt", token.GEQ: "fp.geq"}[n.Op]
			return T(sBool, "(%s %s %s)", m, a.S, b.S), nil
		}
		if bv {
			m := map[token.Token]string{token.LSS: "lt", token.LEQ: "le", token.GTR: "gt", token.GEQ: "ge"}[n.Op]
			pre := "bvu"
			if signed {
				pre = "bvs"
			}
			return T(sBool, "(%s%s %s %s)", pre, m, a.S, b.S), nil
		}
		m := map[token.Token]string{token.LSS: "<", token.LEQ: "<=", token.GTR: ">", token.GEQ: ">="}[n.Op]
		return T(sBool, "(%s %s %s)", m, a.S, b.S), nil
	case token.ADD, token.SUB, token.MUL:
		if bv {
			m := map[token.Token]string{token.ADD: "bvadd", token.SUB: "bvsub", token.MUL: "bvmul"}[n.Op]
			return T(a.Sort, "(%s %s %s)", m, a.S, b.S), at
		}
		if fp {
			m := map[token.Token]string{token.ADD: "fp.add RNE", token.SUB: "fp.sub RNE", token.MUL: "fp.mul RNE"}[n.Op]
			return T(a.Sort, "(%s %s %s)", m, a.S, b.S), at
		}
		m := map[token.Token]string{token.ADD: "+", token.SUB: "-", token.MUL: "*"}[n.Op]
		return T(a.Sort, "(%s %s %s)", m, a.S, b.S), at // mathematical in specifications
	case token.QUO, token.REM:
		if bv {
			m := "bvudiv"
			if n.Op == token.REM {
				m = "bvurem"
			}
			if signed {
				m = strings.Replace(m, "bvu", "bvs", 1)
			}
			return T(a.Sort, "(%s %s %s)", m, a.S, b.S), at
		}
		// specification-level: Euclidean div/mod on Int (only use with non-negative operands)
		m := "div"
		if n.Op == token.REM {
			m = "mod"
		}
		return T(a.Sort, "(%s %s %s)", m, a.S, b.S), at
	case token.AND, token.OR, token.XOR:
		if bv {
			m := map[token.Token]string{token.AND: "bvand", token.OR: "bvor", token.XOR: "bvxor"}[n.Op]
			return T(a.Sort, "(%s %s %s)", m, a.S, b.S), at
		}
	}
	_ = f
	panic("unsupported binary operator " + n.Op.String())
}

func isLitExpr(x ast.Expr) bool {
	switch n := x.(type) {
	case *ast.BasicLit:
		return true
	case *ast.UnaryExpr:
		return isLitExpr(n.X)
	case *ast.ParenExpr:
		return isLitExpr(n.X)
	case *ast.Ident:
		return n.Name == "nil"
	}
	return false
}

func (e *Env) selectField(base Term, bt types.Type, name string) (Term, types.Type) {
	f := e.f
	if base.Sort == sSl {
		switch name {
		case "base", "off", "len", "cap":
			return T(sInt, "(Sl.%s %s)", name, base.S), nil
		}
	}
	if bt == nil {
		// datatype accessor by sort
		if info, ok := f.vc.sorts.structs[base.Sort]; ok {
			for i, fn := range info.Fields {
				if fn == name {
					return T(info.FSorts[i], "(%s.%s %s)", base.Sort, smtName(fn), base.S), nil
				}
			}
		}
		if base.Sort == sSl {
			switch name {
			case "base", "off", "len", "cap":
				return T(sInt, "(Sl.%s %s)", name, base.S), nil
			}
		}
		panic("field " + name + " of untyped value")
	}
	st, ptr := structOf(bt)
	if st == nil {
		panic(fmt.Sprintf("field %s of non-struct %s", name, bt))
	}
	for i := 0; i < st.NumFields(); i++ {
		if st.Field(i).Name() == name {
			ft := st.Field(i).Type()
			if ptr {
				a := f.fieldAddr(base, derefType(bt), i)
				return f.load(a, e.st), ft
			}
			fs := f.vc.sorts.sortOf(ft)
			return T(fs, "(%s.%s %s)", base.Sort, smtName(name), base.S), ft
		}
	}
	// embedded structs: search one level
	for i := 0; i < st.NumFields(); i++ {
		if st.Field(i).Embedded() {
			var inner Term
			ft := st.Field(i).Type()
			if ptr {
				inner = f.load(f.fieldAddr(base, derefType(bt), i), e.st)
			} else {
				inner = T(f.vc.sorts.sortOf(ft), "(%s.%s %s)", base.Sort, smtName(st.Field(i).Name()), base.S)
			}
			if s2, _ := structOf(ft); s2 != nil {
				for j := 0; j < s2.NumFields(); j++ {
					if s2.Field(j).Name() == name {
						return e.selectField(inner, ft, name)
					}
				}
			}
		}
	}
	panic("no field " + name + " in " + bt.String())
}

func structOf(t types.Type) (*types.Struct, bool) {
	if p, ok := t.Underlying().(*types.Pointer); ok {
		s, _ := p.Elem().Underlying().(*types.Struct)
		return s, true
	}
	s, _ := t.Underlying().(*types.Struct)
	return s, false
}

func (e *Env) index(base Term, bt types.Type, idx ast.Expr) (Term, types.Type) {
	f := e.f
	if bt != nil {
		if mt, ok := bt.Underlying().(*types.Map); ok {
			_, vk, ks, vs := f.mapKeys(mt)
			k, _ := e.expr(idx, ks)
			return f.vc.sel2(e.st.get(vk), base, k, vs), mt.Elem()
		}
	}
	if ks, vs, ok := arraySorts(base.Sort); ok && ks != sInt {
		// a ghost map: index by the key sort
		k, _ := e.expr(idx, ks)
		return T(normSort(vs), "(select %s %s)", base.S, k.S), nil
	}
	i, _ := e.expr(idx, f.vc.sorts.wordSort())
	var et types.Type
	if bt != nil {
		switch u := bt.Underlying().(type) {
		case *types.Slice:
			et = u.Elem()
		case *types.Array:
			et = u.Elem()
		case *types.Basic:
			et = types.Typ[types.Byte]
		}
	}
	switch {
	case base.Sort == sSl:
		if et == nil {
			panic("index of untyped heap slice")
		}
		es := f.vc.sorts.sortOf(et)
		a := &Addr{Kind: aHeapElem, Sl: base, Idx: i, Sort: es, Typ: et}
		return f.load(a, e.st), et
	case strings.HasPrefix(base.Sort, "Seq_"):
		return f.seqAt(base, i), et
	case base.Sort == sStr:
		if f.vc.mode == ModeBV {
			return T(bvSort(8), "(gs.atbv %s %s)", base.S, i.S), et
		}
		return T(bvSort(8), "(gs.at %s %s)", base.S, i.S), et
	case strings.HasPrefix(base.Sort, "(Array Int "):
		es := strings.TrimSuffix(strings.TrimPrefix(base.Sort, "(Array Int "), ")")
		return T(es, "(select %s %s)", base.S, f.toInt(i).S), et
	}
	panic("cannot index " + base.Sort)
}

func (e *Env) callExpr(n *ast.CallExpr, hint string) (Term, types.Type) {
	f := e.f
	// spec.fn(args)
	if sel, ok := n.Fun.(*ast.SelectorExpr); ok {
		if id, ok := sel.X.(*ast.Ident); ok && id.Name == "spec" {
			name := sel.Sel.Name
			sf := f.vc.w.specFn[name]
			if sf == nil {
				// constructors / testers of the base prelude
				return e.preludeFn(name, n.Args), nil
			}
			f.vc.uses[f.vc.w.specMod[name]] = true
			var parts []string
			for i, a := range n.Args {
				h := ""
				if i < len(sf.Args) {
					h = normSort(sf.Args[i])
				}
				t, tt := e.expr(a, h)
				if t.Sort == sSl && strings.HasPrefix(h, "Seq_") && tt != nil {
					// a heap slice where the specification function takes a sequence: the
					// sequence of its elements in the current state
					if sl, ok := tt.Underlying().(*types.Slice); ok && "Seq_"+sortTag(f.vc.sorts.sortOf(sl.Elem())) == h {
						t = f.seqOfSlice(t, sl.Elem(), e.st)
					}
				}
				if h != "" && t.Sort != h && !(h == "Int" && (t.Sort == sRef || t.Sort == sErr || t.Sort == sIfc || t.Sort == sFn)) {
					panic(fmt.Sprintf("argument %d of spec.%s has sort %s, want %s", i, name, t.Sort, h))
				}
				parts = append(parts, t.S)
			}
			if len(parts) == 0 {
				return Term{name, normSort(sf.Ret)}, nil
			}
			return T(normSort(sf.Ret), "(%s %s)", name, strings.Join(parts, " ")), nil
		}
		if id, ok := sel.X.(*ast.Ident); ok && id.Name == "pure" {
			return e.pureCall(shortPkg(e.pkg.Path()), sel.Sel.Name, n.Args)
		}
		// pure.pkg.Func(args): a pure function of another repo package
		if inner, ok := sel.X.(*ast.SelectorExpr); ok {
			if id, ok := inner.X.(*ast.Ident); ok && id.Name == "pure" {
				return e.pureCall(inner.Sel.Name, sel.Sel.Name, n.Args)
			}
		}
	}
	id, ok := n.Fun.(*ast.Ident)
	if !ok {
		panic("unsupported call in specification")
	}
	switch id.Name {
	case "old":
		oe := e.clone()
		if e.oldEnv != nil {
			oe = e.oldEnv.clone()
		}
		oe.st = e.old
		for k, v := range e.vars { // quantified variables stay visible
			if _, ok := oe.vars[k]; !ok {
				oe.vars[k] = v
			}
		}
		return oe.expr(n.Args[0], hint)
	case "len":
		t, tt := e.expr(n.Args[0], "")
		if tt != nil {
			if _, isMap := tt.Underlying().(*types.Map); isMap {
				panic("len of map in specification not supported")
			}
		}
		return f.lenOf(t), types.Typ[types.Int]
	case "cap":
		t, _ := e.expr(n.Args[0], "")
		if t.Sort == sSl {
			return T(sInt, "(Sl.cap %s)", t.S), types.Typ[types.Int]
		}
		panic("cap of value sequence")
	case "imp":
		a, _ := e.expr(n.Args[0], sBool)
		b, _ := e.expr(n.Args[1], sBool)
		return tImp(a, b), nil
	case "visited":
		// visited(k): the map range of this loop has already yielded key k
		if e.rangeKey == "" {
			panic("visited: the clause does not belong to a loop that ranges over a map")
		}
		seen := e.st.get(e.rangeKey)
		ks, _, _ := arraySorts(seen.Sort)
		k, _ := e.expr(n.Args[0], ks)
		return T(sBool, "(select %s %s)", seen.S, k.S), nil
	case "docs":
		// docs(): the content of every document in the heap (the component behind *Doc)
		dk := "D:Seq_S_primitive_E"
		f.vc.compSrt[dk] = "(Array Int Seq_S_primitive_E)"
		return e.st.get(dk), nil
	case "apply":
		// apply(fn, args...): the result of calling the pure function-typed parameter fn
		id0, ok := n.Args[0].(*ast.Ident)
		if !ok {
			panic("apply: first argument must be a function-typed parameter")
		}
		ft, fty := e.ident(id0.Name, sFn)
		sig, ok := fty.Underlying().(*types.Signature)
		if !ok {
			panic("apply: " + id0.Name + " is not a function")
		}
		var vals []Value
		for i, a := range n.Args[1:] {
			h := ""
			if i < sig.Params().Len() {
				h = f.vc.sorts.sortOf(sig.Params().At(i).Type())
			}
			t, _ := e.expr(a, h)
			vals = append(vals, t)
		}
		var resT types.Type = sig.Results()
		if sig.Results().Len() == 1 {
			resT = sig.Results().At(0).Type()
		}
		switch r := f.pureParamCall(id0.Name, ft, vals, resT).(type) {
		case Term:
			return r, sig.Results().At(0).Type()
		case Tuple:
			return r[0].(Term), sig.Results().At(0).Type()
		}
		panic("apply: no result")
	case "upd":
		// upd(a, k, v): the ghost map a with key k set to v
		a, _ := e.expr(n.Args[0], "")
		ks, vs, ok := arraySorts(a.Sort)
		if !ok {
			panic("upd of a non-map " + a.Sort)
		}
		k, _ := e.expr(n.Args[1], ks)
		v, _ := e.expr(n.Args[2], vs)
		return T(a.Sort, "(store %s %s %s)", a.S, k.S, v.S), nil
	case "constarr":
		// constarr(v): the ghost map that maps every key to v (its sort comes from the context)
		_, vs, ok := arraySorts(hint)
		if !ok {
			panic("constarr needs an array sort from its context, got " + hint)
		}
		v, _ := e.expr(n.Args[0], vs)
		return T(hint, "((as const %s) %s)", hint, v.S), nil
	case "ifaceptr":
		// ifaceptr(x): the pointer held by a non-empty interface value (io.Writer holding an *os.File)
		t, _ := e.expr(n.Args[0], sIfc)
		f.vc.declareFunOnce("ifc.ptr", []string{sInt}, sInt)
		return T(sRef, "(ifc.ptr %s)", t.S), nil
	case "asptr":
		// asptr(v, T): the *T held by the interface value v (T a named type of the package)
		t, _ := e.expr(n.Args[0], sVal)
		tn := n.Args[1].(*ast.Ident).Name
		obj := e.pkg.Scope().Lookup(tn)
		if obj == nil {
			panic("asptr: unknown type " + tn)
		}
		return T(sRef, "(pay %s)", t.S), types.NewPointer(obj.Type())
	case "hastype":
		// hastype(v, "*mongokit.Changes"): the interface value holds exactly that (non-BSON) Go type
		t, _ := e.expr(n.Args[0], sVal)
		name, _ := strconv.Unquote(n.Args[1].(*ast.BasicLit).Value)
		id := int(hashString(name)%1000000) + 100
		return T(sBool, "(and ((_ is VOther) %s) (= (tid %s) %d) (not (= (pay %s) 0)))", t.S, t.S, id, t.S), nil
	case "same":
		// structural (SMT) equality: for floats, identical bit patterns up to NaN payload
		a, at := e.expr(n.Args[0], hint)
		b, _ := e.expr(n.Args[1], a.Sort)
		if a.Sort == sSl && strings.HasPrefix(b.Sort, "Seq_") && at != nil {
			// a heap slice against a sequence: its elements, in order
			if sl, ok := at.Underlying().(*types.Slice); ok {
				a = f.seqOfSlice(a, sl.Elem(), e.st)
			}
		}
		return tEq(a, b), nil
	case "iff":
		a, _ := e.expr(n.Args[0], sBool)
		b, _ := e.expr(n.Args[1], sBool)
		return tEq(a, b), nil
	case "ite":
		c, _ := e.expr(n.Args[0], sBool)
		var a, b Term
		var at types.Type
		if isLitExpr(n.Args[1]) && !isLitExpr(n.Args[2]) {
			b, at = e.expr(n.Args[2], hint)
			a, _ = e.expr(n.Args[1], b.Sort)
		} else {
			a, at = e.expr(n.Args[1], hint)
			b, _ = e.expr(n.Args[2], a.Sort)
		}
		return tIte(c, a, b), at
	case "forall", "exists":
		// forall(i, lo, hi, body)  -- i ranges over lo <= i < hi (word sort)
		v := n.Args[0].(*ast.Ident).Name
		ws := f.vc.sorts.wordSort()
		qn := v + "!b"
		lo, _ := e.expr(n.Args[1], ws)
		hi, _ := e.expr(n.Args[2], ws)
		ne := e.clone()
		ne.vars[v] = EV{Term{qn, ws}, types.Typ[types.Int]}
		body, _ := ne.expr(n.Args[3], sBool)
		rng := tAnd(f.wLe(lo, Term{qn, ws}), f.wLt(Term{qn, ws}, hi))
		pat := ""
		if strings.Contains(body.S, "(witness "+qn+")") {
			pat = fmt.Sprintf(" :pattern ((witness %s))", qn) // see specs/base.smt2
		}
		if id.Name == "forall" {
			if pat != "" {
				return T(sBool, "(forall ((%s %s)) (! %s%s))", qn, ws, tImp(rng, body).S, pat), nil
			}
			return T(sBool, "(forall ((%s %s)) %s)", qn, ws, tImp(rng, body).S), nil
		}
		if pat != "" {
			return T(sBool, "(exists ((%s %s)) (! %s%s))", qn, ws, tAnd(rng, body).S, pat), nil
		}
		return T(sBool, "(exists ((%s %s)) %s)", qn, ws, tAnd(rng, body).S), nil
	case "all", "any":
		// all(x, Sort, body)
		v := n.Args[0].(*ast.Ident).Name
		srt := exprText(n.Args[1])
		qn := v + "!b"
		ne := e.clone()
		var gt types.Type
		if len(n.Args) == 4 {
			// all(x, Sort, GoTypeOf(expr), body): take the Go type from another expression;
			// all(x, Ref, "pkg.Type", body): x ranges over pointers to the named struct type
			if lit, ok := n.Args[2].(*ast.BasicLit); ok && lit.Kind == token.STRING {
				parts := strings.SplitN(strings.Trim(lit.Value, "\"`"), ".", 2)
				if len(parts) == 2 {
					for _, p := range e.st.vc.w.prog.AllPackages() {
						if p.Pkg.Name() != parts[0] {
							continue
						}
						if tn, ok := p.Pkg.Scope().Lookup(parts[1]).(*types.TypeName); ok {
							gt = types.NewPointer(tn.Type())
						}
					}
				}
				if gt == nil {
					panic(fmt.Sprintf("contract: unknown type %s in quantifier", lit.Value))
				}
			} else {
				_, gt = e.expr(n.Args[2], "")
			}
		}
		ne.vars[v] = EV{Term{qn, srt}, gt}
		body, _ := ne.expr(n.Args[len(n.Args)-1], sBool)
		q := "forall"
		if id.Name == "any" {
			q = "exists"
		}
		if strings.Contains(body.S, "(witness "+qn+")") {
			// spec.witness(x) in the body names the trigger, as for forall / exists
			return T(sBool, "(%s ((%s %s)) (! %s :pattern ((witness %s))))", q, qn, srt, body.S, qn), nil
		}
		return T(sBool, "(%s ((%s %s)) %s)", q, qn, srt, body.S), nil
	case "fresh":
		t, _ := e.expr(n.Args[0], sRef)
		if strings.HasPrefix(t.Sort, "Seq_") {
			return tTrue(), nil // a value sequence is not a heap object: nothing can alias it
		}
		if t.Sort == sSl {
			t = T(sInt, "(Sl.base %s)", t.S)
		}
		return T(sBool, "(and (not (= %s 0)) (>= (alloc %s) %s))", t.S, t.S, e.old.now.S), nil
	case "allocated":
		t, _ := e.expr(n.Args[0], sRef)
		return T(sBool, "(< (alloc %s) %s)", t.S, e.st.now.S), nil
	case "preexisting":
		t, _ := e.expr(n.Args[0], sRef)
		if t.Sort == sSl {
			t = T(sInt, "(Sl.base %s)", t.S)
		}
		return T(sBool, "(< (alloc %s) %s)", t.S, e.old.now.S), nil
	case "alloc":
		t, _ := e.expr(n.Args[0], sRef)
		return T(sInt, "(alloc %s)", t.S), nil
	case "clock":
		// clock(): the allocation clock of the current state (every object that exists has a smaller stamp)
		return e.st.now, nil
	case "before":
		// before(e) in a loop clause: e when the loop was entered
		if e.loopPre == nil {
			panic("before(...) outside a loop clause")
		}
		pe := e.loopPre.clone()
		// bound variables of enclosing quantifiers stay visible
		for k, v := range e.vars {
			if t, isT := v.V.(Term); isT && boundVarRE.MatchString(t.S+" ") {
				pe.vars[k] = v
			}
		}
		return pe.expr(n.Args[0], hint)
	case "mkstruct":
		// mkstruct(S_pkg_Type, field values in declaration order): a struct value
		srt := exprText(n.Args[0])
		var parts []string
		for _, a := range n.Args[1:] {
			t, _ := e.expr(a, "")
			parts = append(parts, t.S)
		}
		return T(srt, "(mk.%s %s)", srt, strings.Join(parts, " ")), nil
	case "is":
		t, _ := e.expr(n.Args[0], sVal)
		return T(sBool, "((_ is %s) %s)", n.Args[1].(*ast.Ident).Name, t.S), nil
	case "unchanged":
		a, _ := e.expr(n.Args[0], "")
		oe := e.clone()
		if e.oldEnv != nil {
			oe = e.oldEnv.clone()
		}
		oe.st = e.old
		b, _ := oe.expr(n.Args[0], "")
		return tEq(a, b), nil
	case "has":
		m, mt := e.expr(n.Args[0], sRef)
		mm := mt.Underlying().(*types.Map)
		hk, _, ks, _ := f.mapKeys(mm)
		k, _ := e.expr(n.Args[1], ks)
		return tAnd(T(sBool, "(not (= %s 0))", m.S), f.vc.sel2(e.st.get(hk), m, k, sBool)), nil
	case "elems":
		// the backing array content of a heap slice
		s, st := e.expr(n.Args[0], sSl)
		if s.Sort != sSl {
			panic("elems of a value sequence")
		}
		es := f.vc.sorts.sortOf(st.Underlying().(*types.Slice).Elem())
		key := f.compKey("E:", sortTag(es), es)
		return T("(Array Int "+es+")", "(select %s (Sl.base %s))", e.st.get(key).S, s.S), nil
	case "smt":
		lit := n.Args[0].(*ast.BasicLit)
		s, _ := strconv.Unquote(lit.Value)
		srt := sBool
		if len(n.Args) > 1 {
			srt, _ = strconv.Unquote(n.Args[1].(*ast.BasicLit).Value)
		}
		// $name substitution
		out := dollarRe.ReplaceAllStringFunc(s, func(m string) string {
			t, _ := e.ident(m[1:], "")
			return t.S
		})
		return Term{out, srt}, nil
	case "int64", "int32", "int", "uint64", "uint32", "float64", "byte", "uint8":
		t, tt := e.expr(n.Args[0], "")
		to := types.Universe.Lookup(id.Name).Type()
		if tt == nil {
			tt = guessType(t.Sort)
		}
		r := f.convert(t, tt, to)
		return r.(Term), to
	}
	panic("unknown specification function " + id.Name)
}

// arraySorts splits "(Array K V)" into its key and value sorts.
func arraySorts(s string) (k, v string, ok bool) {
	if !strings.HasPrefix(s, "(Array ") {
		return "", "", false
	}
	sx, err := parseSexps(s)
	if err != nil || len(sx) != 1 || !sx[0].IsL || len(sx[0].List) != 3 {
		return "", "", false
	}
	return normSort(sx[0].List[1].String()), normSort(sx[0].List[2].String()), true
}

func guessType(sort string) types.Type {
	switch sort {
	case bvSort(64):
		return types.Typ[types.Int64]
	case bvSort(32):
		return types.Typ[types.Int32]
	case bvSort(8):
		return types.Typ[types.Uint8]
	case sF64:
		return types.Typ[types.Float64]
	}
	return types.Typ[types.Int]
}

func exprText(x ast.Expr) string {
	switch n := x.(type) {
	case *ast.Ident:
		return n.Name
	case *ast.BasicLit:
		s, _ := strconv.Unquote(n.Value)
		return s
	}
	panic("bad sort expression")
}

// preludeFn handles constructors/accessors of the Val datatype: spec.VI32(x), spec.i32(v), ...
func (e *Env) preludeFn(name string, args []ast.Expr) Term {
	ctors := map[string][2]string{"VI32": {bvSort(32), sVal}, "VI64": {bvSort(64), sVal}, "VF64": {sF64, sVal}, "VStr": {sStr, sVal},
		"VBool": {sBool, sVal}, "VDate": {bvSort(64), sVal}, "VDoc": {"Seq_S_primitive_E", sVal}, "VArr": {"Seq_Val", sVal},
		"VDec": {"S_primitive_Decimal128", sVal}, "VBin": {"S_primitive_Binary", sVal}, "VTs": {"S_primitive_Timestamp", sVal}, "VRegex": {"S_primitive_Regex", sVal},
		"i32": {sVal, bvSort(32)}, "i64": {sVal, bvSort(64)}, "f64": {sVal, sF64}, "str": {sVal, sStr}, "bool": {sVal, sBool},
		"date": {sVal, bvSort(64)}, "doc": {sVal, "Seq_S_primitive_E"}, "arr": {sVal, "Seq_Val"}, "dec": {sVal, "S_primitive_Decimal128"},
		"bin": {sVal, "S_primitive_Binary"}, "ts": {sVal, "S_primitive_Timestamp"}, "regex": {sVal, "S_primitive_Regex"}, "oid": {sVal, "(Array Int (_ BitVec 8))"}}
	sig, ok := ctors[name]
	if !ok {
		panic("unknown spec function " + name)
	}
	t, _ := e.expr(args[0], sig[0])
	return T(sig[1], "(%s %s)", name, t.S)
}

// pureCall: pure.Func(args) stands for the result of a pure repo function.
func (e *Env) pureCall(pk, name string, args []ast.Expr) (Term, types.Type) {
	f := e.f
	key := pk + "." + name
	fn := f.vc.w.fnIndex[key]
	if fn == nil {
		panic("unknown pure function " + key)
	}
	var vals []Value
	for i, a := range args {
		h := ""
		if i < len(fn.Params) {
			h = f.vc.sorts.sortOf(fn.Params[i].Type())
		}
		t, _ := e.expr(a, h)
		vals = append(vals, t)
	}
	rt := fn.Signature.Results().At(0).Type()
	return f.pureResult(key, 0, vals, rt, e.st), rt
}

// ---------------------------------------------------------------------------
// modifies targets

type modTarget struct {
	all   bool
	whole bool // the whole component
	key   string
	ref   Term
	since *Term // every object allocated at or after this stamp
	guard *Term // the target is empty unless this holds (elems of a slice without capacity)
}

// modTargets resolves one modifies entry into frame targets (mapof yields two).
func (e *Env) modTargets(m string) (out []modTarget, err error) {
	defer func() {
		if r := recover(); r != nil {
			err = fmt.Errorf("%v", r)
		}
	}()
	m = strings.TrimSpace(m)
	if strings.HasPrefix(m, "since(") && strings.HasSuffix(m, ")") {
		pre := e.atEntry()
		t, err2 := pre.tr(m[len("since("):len(m)-1], sRef)
		if err2 != nil {
			return nil, err2
		}
		if t.Sort == sSl {
			t = T(sInt, "(Sl.base %s)", t.S)
		}
		var th Term
		if t.S == pre.st.now.S {
			th = pre.st.now
		} else {
			th = T(sInt, "(alloc %s)", t.S)
		}
		return []modTarget{{since: &th}}, nil
	}
	if strings.HasPrefix(m, "mapof(") {
		pre := e.atEntry()
		ex, perr := parser.ParseExpr(m[len("mapof(") : len(m)-1])
		if perr != nil {
			return nil, perr
		}
		mv, mtt := pre.expr(ex, sRef)
		hk, vk, _, _ := e.f.mapKeys(mtt.Underlying().(*types.Map))
		return []modTarget{{key: hk, ref: mv}, {key: vk, ref: mv}}, nil
	}
	t, err := e.modTarget(m)
	if err != nil {
		return nil, err
	}
	if t.key == "" && !t.all {
		return nil, nil
	}
	return []modTarget{t}, nil
}

func (e *Env) modTarget(m string) (mt modTarget, err error) {
	defer func() {
		if r := recover(); r != nil {
			err = fmt.Errorf("%v", r)
		}
	}()
	m = strings.TrimSpace(m)
	if m == "*" {
		return modTarget{all: true}, nil
	}
	if m == "fresh" || m == "nothing" {
		return modTarget{whole: true, key: ""}, nil
	}
	ex, perr := parser.ParseExpr(m)
	if perr != nil {
		return mt, perr
	}
	f := e.f
	pre := e.atEntry()
	if sel, ok := ex.(*ast.SelectorExpr); ok {
		if id, ok := sel.X.(*ast.Ident); ok && id.Name == "ghost" {
			srt, ok := parsedGhosts[sel.Sel.Name]
			if !ok {
				return mt, fmt.Errorf("unknown ghost variable %s", sel.Sel.Name)
			}
			key := "X:ghost." + sel.Sel.Name
			f.vc.ensureSortsIn(srt)
			f.vc.compSrt[key] = normSort(srt)
			return modTarget{whole: true, key: key}, nil
		}
	}
	switch n := ex.(type) {
	case *ast.Ident:
		// a package-level variable of the contract's package
		if e.pkg != nil {
			if _, ok := e.pkg.Scope().Lookup(n.Name).(*types.Var); ok {
				if sp := f.vc.w.pkgs[e.pkg.Path()]; sp != nil {
					if g, ok := sp.Members[n.Name].(*ssa.Global); ok {
						if a, ok := f.value(g, pre.st).(*Addr); ok && a.Kind == aGlobal {
							key := f.compKey("G:", strings.TrimPrefix(a.Key, "G:"), a.Sort)
							return modTarget{whole: true, key: key}, nil
						}
					}
				}
			}
		}
		return mt, fmt.Errorf("unsupported modifies target %q", m)
	case *ast.SelectorExpr:
		base, bt := pre.expr(n.X, sRef)
		st, ptr := structOf(bt)
		if st == nil || !ptr {
			return mt, fmt.Errorf("modifies %s: base is not a pointer to struct", m)
		}
		for i := 0; i < st.NumFields(); i++ {
			if st.Field(i).Name() == n.Sel.Name {
				a := f.fieldAddr(base, derefType(bt), i)
				return modTarget{key: a.Key, ref: base}, nil
			}
		}
		return mt, fmt.Errorf("modifies %s: no such field", m)
	case *ast.StarExpr:
		p, pt := pre.expr(n.X, sRef)
		elem := derefType(pt)
		if _, isS := elem.Underlying().(*types.Struct); isS {
			return mt, fmt.Errorf("modifies *struct: list the fields")
		}
		a := f.derefAddr(p, elem)
		return modTarget{key: a.Key, ref: p}, nil
	case *ast.CallExpr:
		id, _ := n.Fun.(*ast.Ident)
		if id != nil && id.Name == "elems" {
			s, st := pre.expr(n.Args[0], sSl)
			if s.Sort != sSl {
				// value sequences are immutable values: nothing to frame
				return modTarget{whole: true, key: ""}, nil
			}
			es := f.vc.sorts.sortOf(st.Underlying().(*types.Slice).Elem())
			key := f.compKey("E:", sortTag(es), es)
			g := T(sBool, "(> (Sl.cap %s) 0)", s.S)
			return modTarget{key: key, ref: T(sInt, "(Sl.base %s)", s.S), guard: &g}, nil
		}
		if id != nil && id.Name == "comp" {
			// comp(Type.field): the whole field of every object
			sel := n.Args[0].(*ast.SelectorExpr)
			tn := sel.X.(*ast.Ident).Name
			obj := e.pkg.Scope().Lookup(tn)
			if obj == nil {
				return mt, fmt.Errorf("unknown type %s", tn)
			}
			st := obj.Type().Underlying().(*types.Struct)
			for i := 0; i < st.NumFields(); i++ {
				if st.Field(i).Name() == sel.Sel.Name {
					a := f.fieldAddr(Term{"0", sRef}, obj.Type(), i)
					return modTarget{whole: true, key: a.Key}, nil
				}
			}
		}
		if id != nil && id.Name == "mapof" {
			mv, mtt := pre.expr(n.Args[0], sRef)
			hk, vk, _, _ := f.mapKeys(mtt.Underlying().(*types.Map))
			_ = vk
			return modTarget{key: hk, ref: mv}, nil
		}
	}
	return mt, fmt.Errorf("unsupported modifies target %q", m)
}

var dollarRe = mustRe(`\$[A-Za-z_][A-Za-z_0-9]*`)
