package main

import (
	"flag"
	"fmt"
	"os"
	"regexp"
	"sort"
	"strings"
	"sync"
	"time"
)

func main() {
	if len(os.Args) < 2 {
		fmt.Fprintln(os.Stderr, "usage: lungovc verify|check ...")
		os.Exit(2)
	}
	switch os.Args[1] {
	case "verify":
		cmdVerify(os.Args[2:])
	case "check":
		cmdCheck(os.Args[2:])
	case "replay":
		cmdReplay(os.Args[2:])
	case "locals":
		// development: print the `locals` line of every function under contract
		w, err := loadWorld("/repo", "/verif")
		if err != nil {
			fmt.Fprintln(os.Stderr, "load:", err)
			os.Exit(2)
		}
		var keys []string
		for k, c := range w.contracts {
			if !c.Extern && !c.Trusted && w.fnIndex[k] != nil {
				keys = append(keys, k)
			}
		}
		sort.Strings(keys)
		for _, k := range keys {
			fmt.Printf("%-40s //@   locals %s\n", k, strings.Join(declaredLocals(w.fnIndex[k]), " "))
		}
	default:
		fmt.Fprintln(os.Stderr, "unknown command", os.Args[1])
		os.Exit(2)
	}
}

type result struct {
	o *Oblig
	v Verdict
}

// runAll discharges obligations in two stages: a quick pass with one solver
// (most obligations are trivial), then a race of all back ends on the rest.
func runAll(obs []*Oblig, outDir string, timeoutS int, workers int, which []string, all bool) []result {
	return runAllEsc(obs, outDir, timeoutS, workers, which, all, nil)
}

// runAllSel: like runAll, but only obligations selected by esc enter the second stage.
func runAllSel(obs []*Oblig, outDir string, timeoutS int, workers int, esc func(*Oblig) bool) []result {
	return runAllEsc(obs, outDir, timeoutS, workers, nil, false, esc)
}

func runAllEsc(obs []*Oblig, outDir string, timeoutS int, workers int, which []string, all bool, esc func(*Oblig) bool) []result {
	res := make([]result, len(obs))
	stage := func(idx []int, workers int, t int, which []string, all bool) {
		var wg sync.WaitGroup
		sem := make(chan struct{}, workers)
		for _, i := range idx {
			wg.Add(1)
			sem <- struct{}{}
			go func(i int) {
				defer wg.Done()
				defer func() { <-sem }()
				res[i] = result{obs[i], discharge(obs[i], outDir, t, which, all)}
			}(i)
		}
		wg.Wait()
	}
	var idx []int
	for i := range obs {
		idx = append(idx, i)
	}
	if len(which) == 0 && !all {
		quick := 2
		if timeoutS < quick {
			quick = timeoutS
		}
		stage(idx, workers, quick, []string{"z3-new"}, false)
		var rest []int
		for _, i := range idx {
			if s := res[i].v.Status; s != "unsat" && s != "sat" {
				if esc == nil || esc(obs[i]) {
					rest = append(rest, i)
				}
			}
		}
		idx = rest
		workers = workers / len(solvers)
		if workers < 1 {
			workers = 1
		}
	}
	stage(idx, workers, timeoutS, which, all)
	return res
}

// cmdVerify: development command; verifies the functions whose key matches -func.
func cmdVerify(args []string) {
	fs := flag.NewFlagSet("verify", flag.ExitOnError)
	fnRe := fs.String("func", ".", "regexp on function keys (only functions with contracts unless -all)")
	allFns := fs.Bool("all", false, "include functions without contract (safety sweep)")
	timeout := fs.Int("timeout", 10, "solver timeout (s)")
	outDir := fs.String("out", "/verif/out/dev", "output directory")
	only := fs.String("only", "", "regexp on obligation names")
	solversF := fs.String("solvers", "", "comma separated subset of z3-new,z3,cvc5")
	verbose := fs.Bool("v", false, "print notes")
	repo := fs.String("repo", "/repo", "repository")
	fs.Parse(args)
	t0 := time.Now()
	w, err := loadWorld(*repo, "/verif")
	if err != nil {
		fmt.Fprintln(os.Stderr, "load:", err)
		os.Exit(2)
	}
	fmt.Printf("loaded in %.1fs; %d contracts\n", time.Since(t0).Seconds(), len(w.contracts))
	re := regexp.MustCompile(*fnRe)
	var keys []string
	for k, fn := range w.fnIndex {
		if fn.Blocks == nil || !strings.HasPrefix(k, "lungo") && !strings.HasPrefix(k, "bsonkit") && !strings.HasPrefix(k, "mongokit") && !strings.HasPrefix(k, "dbkit") {
			continue
		}
		if !re.MatchString(k) {
			continue
		}
		if w.contracts[k] == nil && !*allFns {
			continue
		}
		if c := w.contracts[k]; c != nil && c.Trusted {
			continue
		}
		keys = append(keys, k)
	}
	sort.Strings(keys)
	var obs []*Oblig
	for _, k := range keys {
		vc := w.verifyFunction(w.fnIndex[k], w.contracts[k])
		if vc.failed != nil {
			fmt.Printf("FAILED-TO-GENERATE %s: %v\n", k, vc.failed)
			continue
		}
		if *verbose {
			for _, n := range vc.notes {
				fmt.Println("  note:", n)
			}
		}
		for _, o := range vc.obligs {
			if *only != "" && !regexp.MustCompile(*only).MatchString(o.Name) {
				continue
			}
			obs = append(obs, o)
		}
	}
	var which []string
	if *solversF != "" {
		which = strings.Split(*solversF, ",")
	}
	res := runAll(obs, *outDir, *timeout, 16, which, false)
	nOK := 0
	for _, r := range res {
		ok := r.v.Status == "unsat"
		if r.o.Cover {
			ok = r.v.Status == "sat"
		}
		mark := "FAIL"
		if ok {
			mark = "ok  "
			nOK++
		}
		fmt.Printf("%s %-8s %-7s %5.2fs %s  [%s] %s\n", mark, r.v.Status, r.v.Solver, r.v.Seconds, r.o.Name, strings.Join(r.o.Tags, ","), r.o.Pos)
		if !ok && r.v.Output != "" {
			fmt.Println("     ", r.v.Output)
		}
	}
	fmt.Printf("%d/%d discharged, %.1fs\n", nOK, len(res), time.Since(t0).Seconds())
	lastVerifyOK, lastVerifyTotal = nOK, len(res)
}

// the outcome of the last cmdVerify call (used by `replay`)
var lastVerifyOK, lastVerifyTotal int
