package main

import (
	"fmt"
	"go/types"
	"os"
	"regexp"
	"strings"

	"golang.org/x/tools/go/ssa"
)

// Item is one line of the growing SMT context of a function: a declaration /
// definition, or an assumption (a Bool formula).
type Item struct {
	Decl  bool
	Text  string
	Owner string // a definitional axiom about this fresh constant: needed only where the constant is (smtText slices)
}

// Oblig is one proof obligation.
type Oblig struct {
	Name     string
	Kind     string // post, pre, inv-init, inv-pres, variant, frame, safe/..., decreases, cover, lemma
	Tags     []string
	Goal     string // Bool formula to be proved (the query asserts its negation)
	NItems   int    // number of context items visible to the goal
	Pos      string
	Func     string
	Desc     string
	Cover    bool     // a reachability (must be SAT) check
	Params   []string // names of SMT constants holding the function inputs (for replay)
	Raw      string   // complete query text (lemma files)
	RetTerms []string // SMT terms of the returned values (post obligations)
	vc       *VC
}

// VC is the verification context of one function under contract.
type VC struct {
	w            *World
	fn           *ssa.Function
	con          *Contract
	sorts        *Sorts
	mode         ArithMode
	items        []Item
	obligs       []*Oblig
	nfresh       int
	nframes      int
	compSrt      map[string]string
	strLits      map[string]string
	declFns      map[string]bool
	notes        []string // things abstracted (havocked callees, unsupported instructions)
	inlined      map[string]bool
	assumed      map[string]bool // contracts of callees that were used (name -> trusted?)
	assumedWF    map[string]bool // repo callees without contract whose results were assumed well-formed
	uses         map[string]bool // spec modules
	siteN        map[string]int
	fname        string
	lenSeen      map[string]bool
	failed       error
	topEnv       *Env
	params       []string
	frameTargets []frameTarget
	frameTags    []string
	nreq         int
	subCache     map[string]Term
	stores       map[string]storeRec
	sweep        bool // zero-annotation safety sweep: implicit assumptions on the inputs (verify.go)
}

func (vc *VC) fresh(prefix string) string {
	vc.nfresh++
	return fmt.Sprintf("%s!%d", smtName(prefix), vc.nfresh)
}

func (vc *VC) declare(name, sort string) Term {
	vc.items = append(vc.items, Item{Decl: true, Text: fmt.Sprintf("(declare-const %s %s)", name, sort)})
	return Term{name, sort}
}

func (vc *VC) freshConst(prefix, sort string) Term {
	return vc.declare(vc.fresh(prefix), sort)
}

// define introduces a named abbreviation for a term (keeps VCs small).
func (vc *VC) define(prefix string, t Term) Term {
	if len(t.S) < 40 {
		return t
	}
	name := vc.fresh(prefix)
	vc.items = append(vc.items, Item{Decl: true, Text: fmt.Sprintf("(define-fun %s () %s %s)", name, t.Sort, t.S)})
	return Term{name, t.Sort}
}

func (vc *VC) defineAlways(prefix string, t Term) Term {
	name := vc.fresh(prefix)
	vc.items = append(vc.items, Item{Decl: true, Text: fmt.Sprintf("(define-fun %s () %s %s)", name, t.Sort, t.S)})
	return Term{name, t.Sort}
}

func (vc *VC) declareFun(name string, args []string, ret string) {
	if vc.declFns[name] || preludeFuns[name] {
		return
	}
	vc.declFns[name] = true
	vc.items = append(vc.items, Item{Decl: true, Text: fmt.Sprintf("(declare-fun %s (%s) %s)", name, strings.Join(args, " "), ret)})
}

func (vc *VC) assume(t Term) {
	if t.S == "true" {
		return
	}
	vc.items = append(vc.items, Item{Text: t.S})
}

// storeRec remembers how a heap component term was built, so that a read at
// the location that was just written is answered syntactically (read over
// write) instead of being left to the solver's array theory.
type storeRec struct {
	idx  string // object (or map) written
	idx2 string // map key, for two-level stores
	val  Term
}

// storeTerm builds (store old idx val), names it, and records it.
func (vc *VC) storeTerm(prefix string, old Term, idx Term, val Term) Term {
	t := vc.define(prefix, T(old.Sort, "(store %s %s %s)", old.S, idx.S, val.S))
	if vc.stores == nil {
		vc.stores = map[string]storeRec{}
	}
	vc.stores[t.S] = storeRec{idx: idx.S, val: val}
	return t
}

// store2Term builds the update of key k of map object m in a two-level component.
func (vc *VC) store2Term(prefix string, old Term, m, k Term, val Term) Term {
	t := vc.define(prefix, T(old.Sort, "(store %s %s (store (select %s %s) %s %s))", old.S, m.S, old.S, m.S, k.S, val.S))
	if vc.stores == nil {
		vc.stores = map[string]storeRec{}
	}
	vc.stores[t.S] = storeRec{idx: m.S, idx2: k.S, val: val}
	return t
}

// sel is (select comp idx) with read-over-write on the most recent store.
func (vc *VC) sel(comp Term, idx Term, sort string) Term {
	if r, ok := vc.stores[comp.S]; ok && r.idx2 == "" && r.idx == idx.S {
		return r.val
	}
	return T(sort, "(select %s %s)", comp.S, idx.S)
}

// sel2 is (select (select comp m) k) with read-over-write on the most recent store.
func (vc *VC) sel2(comp Term, m, k Term, sort string) Term {
	if r, ok := vc.stores[comp.S]; ok && r.idx2 != "" && r.idx == m.S && r.idx2 == k.S {
		return r.val
	}
	return T(sort, "(select (select %s %s) %s)", comp.S, m.S, k.S)
}

// assumeOwned records a (quantified) axiom that only defines the fresh constant
// owner; a query in which owner does not occur, directly or through the other
// formulas of the query, is printed without it.
func (vc *VC) assumeOwned(owner Term, t Term) {
	if t.S == "true" {
		return
	}
	vc.items = append(vc.items, Item{Text: t.S, Owner: owner.S})
}

func (vc *VC) note(format string, args ...interface{}) {
	n := fmt.Sprintf(format, args...)
	for _, o := range vc.notes {
		if o == n {
			return
		}
	}
	vc.notes = append(vc.notes, n)
}

func (vc *VC) site(desc string) string {
	n := vc.siteN[desc]
	vc.siteN[desc] = n + 1
	return fmt.Sprintf("%s#%d", desc, n)
}

func (vc *VC) oblige(kind, name string, tags []string, reach Term, goal Term, pos string) *Oblig {
	o := &Oblig{Name: vc.fname + "/" + name, Kind: kind, Tags: tags, Goal: tImp(reach, goal).S, NItems: len(vc.items), Pos: pos, Func: vc.fname, vc: vc}
	vc.obligs = append(vc.obligs, o)
	return o
}

// strLit returns the SMT constant standing for a Go string literal.
func (vc *VC) strLit(s string) Term {
	if n, ok := vc.strLits[s]; ok {
		return Term{n, sStr}
	}
	name := fmt.Sprintf("strlit!%d", len(vc.strLits))
	vc.strLits[s] = name
	return Term{name, sStr}
}

// ---------------------------------------------------------------------------
// State: a lazily evaluated, persistent map from heap components to terms.

type stKind int

const (
	stEntry stKind = iota
	stSeq
	stMerge
	stHavoc // havoc of a key set (or of the whole heap)
)

type deferred struct {
	call  *ssa.Defer
	frame *Frame
}

type State struct {
	vc     *VC
	kind   stKind
	m      map[string]Term
	parent *State
	preds  []*State
	conds  []Term
	keys   map[string]bool // stHavoc: which keys (nil => whole heap)
	id     string
	defers []deferred
	now    Term
	dunk   bool // defers unknown after a merge
	since  *Term
	// loopFrame: this havoc is the cut at a loop header of a function with a modifies
	// clause: what the function may not write at all is unchanged by the loop as well
	loopFrame bool
}

func (vc *VC) entryState() *State {
	s := &State{vc: vc, kind: stEntry, m: map[string]Term{}}
	s.now = vc.declare("now!0", sInt)
	return s
}

// docsWF: in the safety sweep every document in the heap that the function did
// not write itself (entry heap, heap after a havoc) is a well-formed BSON document.
func (vc *VC) docsWF(key string, comp Term) {
	if !vc.sweep || key != "D:Seq_S_primitive_E" {
		return
	}
	vc.uses["wf"] = true
	vc.assumeOwned(comp, T(sBool, "(forall ((r!q Int)) (! (wfVal (VDoc (select %s r!q))) :pattern ((select %s r!q))))", comp.S, comp.S))
}

// entryHeapClosed: the heap at function entry is closed under reachability: a
// pointer stored in an object (or map) that existed at entry points to an object
// that existed at entry (nothing allocated later can be referenced from it yet).
func (vc *VC) entryHeapClosed(key string, comp Term) {
	vc.heapClosed(key, comp, Term{"now!0", sInt})
}

// closedEverywhere: the closure axioms also cover havocked components, slice-valued
// fields and what a callee stored in its frame targets (LUNGOVC_OPEN=1 switches this
// off for experiments: entry heap only).
var closedEverywhere = os.Getenv("LUNGOVC_OPEN") == ""

// heapClosed: the same closure for a component as it is after a call or at a loop
// cut, relative to the allocation clock of that state (which is past every
// allocation made so far): what an existing object refers to exists.
func (vc *VC) heapClosed(key string, comp Term, now Term) {
	if !closedEverywhere && (now.S != "now!0" || comp.Sort == "(Array Int Sl)" || strings.HasPrefix(key, "E:")) {
		return
	}
	switch {
	case (strings.HasPrefix(key, "F:") || strings.HasPrefix(key, "D:")) && comp.Sort == "(Array Int Ref)":
		vc.assumeOwned(comp, T(sBool, "(forall ((r!q Int)) (! (=> (< (alloc r!q) %[2]s) (< (alloc (select %[1]s r!q)) %[2]s)) :pattern ((select %[1]s r!q))))", comp.S, now.S))
	case (strings.HasPrefix(key, "F:") || strings.HasPrefix(key, "D:")) && comp.Sort == "(Array Int Sl)":
		vc.assumeOwned(comp, T(sBool, "(forall ((r!q Int)) (! (=> (< (alloc r!q) %[2]s) (< (alloc (Sl.base (select %[1]s r!q))) %[2]s)) :pattern ((select %[1]s r!q))))", comp.S, now.S))
	case strings.HasPrefix(key, "E:") && comp.Sort == "(Array Int (Array Int Ref))":
		vc.assumeOwned(comp, T(sBool, "(forall ((b!q Int) (i!q Int)) (! (=> (< (alloc b!q) %[2]s) (< (alloc (select (select %[1]s b!q) i!q)) %[2]s)) :pattern ((select (select %[1]s b!q) i!q))))", comp.S, now.S))
	case strings.HasPrefix(key, "MV:") && strings.HasSuffix(comp.Sort, " Ref))"):
		if ks, _, ok := arraySorts(strings.TrimSuffix(strings.TrimPrefix(comp.Sort, "(Array Int "), ")")); ok {
			vc.assumeOwned(comp, T(sBool, "(forall ((m!q Int) (k!q %[3]s)) (! (=> (< (alloc m!q) %[2]s) (< (alloc (select (select %[1]s m!q) k!q)) %[2]s)) :pattern ((select (select %[1]s m!q) k!q))))", comp.S, now.S, ks))
		}
	}
}

// loopFrameAxiom: in a function with a modifies clause every write is proved
// (frame obligations) to hit an object allocated during the call or a declared
// target. So at a loop cut the objects that existed at function entry and are
// not declared targets of this component keep their content.
func (vc *VC) loopFrameAxiom(key string, now, before Term) {
	if !strings.HasPrefix(key, "F:") && !strings.HasPrefix(key, "D:") && !strings.HasPrefix(key, "E:") && !strings.HasPrefix(key, "M") {
		return
	}
	excl := []string{"(< (alloc r!q) now!0)"}
	for _, m := range vc.frameTargets {
		switch {
		case m.all:
			return
		case m.since != nil:
			excl = append(excl, fmt.Sprintf("(< (alloc r!q) %s)", m.since.S))
		case m.key == key && m.whole:
			return
		case m.key == key:
			excl = append(excl, fmt.Sprintf("(not (= r!q %s))", m.ref.S))
		}
	}
	vc.assumeOwned(now, T(sBool, "(forall ((r!q Int)) (! (=> (and %s) (= (select %s r!q) (select %s r!q))) :pattern ((select %s r!q))))",
		strings.Join(excl, " "), now.S, before.S, now.S))
}

func (s *State) derive() *State {
	return &State{vc: s.vc, kind: stSeq, m: map[string]Term{}, parent: s, defers: s.defers, now: s.now, dunk: s.dunk}
}

// heapKey reports whether a component belongs to the shared heap (and is
// therefore affected by a havoc of "everything").
func heapKey(key string) bool {
	return strings.HasPrefix(key, "F:") || strings.HasPrefix(key, "D:") || strings.HasPrefix(key, "E:") ||
		strings.HasPrefix(key, "M") || strings.HasPrefix(key, "G:") || strings.HasPrefix(key, "X:")
}

func (s *State) havocAll(why string) *State {
	n := &State{vc: s.vc, kind: stHavoc, m: map[string]Term{}, parent: s, id: s.vc.fresh("h"), defers: s.defers, dunk: s.dunk}
	n.now = s.vc.freshConst("now", sInt)
	s.vc.assume(T(sBool, "(>= %s %s)", n.now.S, s.now.S))
	return n
}

func (s *State) havocKeys(keys map[string]bool, all bool) *State {
	n := &State{vc: s.vc, kind: stHavoc, m: map[string]Term{}, parent: s, id: s.vc.fresh("l"), defers: s.defers, dunk: s.dunk}
	if !all {
		n.keys = keys
	} else {
		n.keys = nil
	}
	n.now = s.vc.freshConst("now", sInt)
	s.vc.assume(T(sBool, "(>= %s %s)", n.now.S, s.now.S))
	if !all {
		// remember explicitly havocked non-heap keys
		n.keys = keys
	}
	return n
}

// havocSince: every heap object allocated at or after the stamp th may have changed.
func (s *State) havocSince(th Term) *State {
	n := &State{vc: s.vc, kind: stHavoc, m: map[string]Term{}, parent: s, id: s.vc.fresh("s"), defers: s.defers, dunk: s.dunk}
	n.since = &th
	n.now = s.vc.freshConst("now", sInt)
	s.vc.assume(T(sBool, "(>= %s %s)", n.now.S, s.now.S))
	return n
}

func (s *State) set(key string, t Term) {
	s.m[key] = t
}

func (vc *VC) compSort(key string) string {
	if srt, ok := vc.compSrt[key]; ok {
		return srt
	}
	panic("unknown component sort: " + key)
}

// get returns the current term of a component; ok=false if the component was
// never given a sort (only possible for version keys).
func (s *State) get(key string) Term {
	if t, ok := s.m[key]; ok {
		return t
	}
	var res Term
	switch s.kind {
	case stEntry:
		res = s.vc.declare(smtName(key)+"!0", s.vc.compSort(key))
		s.vc.docsWF(key, res)
		s.vc.entryHeapClosed(key, res)
	case stSeq:
		res = s.parent.get(key)
	case stHavoc:
		hit := false
		if s.keys == nil {
			hit = heapKey(key)
		} else {
			hit = s.keys[key] || (s.keys["*"] && heapKey(key))
		}
		if hit && s.since != nil && (strings.HasPrefix(key, "G:") || strings.HasPrefix(key, "X:")) {
			// callees with an allocation-time frame do not write globals, and they list
			// the ghost components they write by name (checked by frame@ghost obligations)
			hit = false
		}
		if hit {
			res = s.vc.declare(smtName(key)+"!"+s.id, s.vc.compSort(key))
			s.vc.docsWF(key, res)
			s.vc.heapClosed(key, res, s.now)
			if s.loopFrame {
				s.vc.loopFrameAxiom(key, res, s.parent.get(key))
			}
			if s.since != nil {
				// frame: objects allocated before the threshold are unchanged
				old := s.parent.get(key)
				s.vc.assumeOwned(res, T(sBool, "(forall ((r!q Int)) (! (=> (< (alloc r!q) %s) (= (select %s r!q) (select %s r!q))) :pattern ((select %s r!q))))",
					s.since.S, res.S, old.S, res.S))
			}
		} else {
			res = s.parent.get(key)
		}
	case stMerge:
		var ts []Term
		same := true
		for _, p := range s.preds {
			t := p.get(key)
			if len(ts) > 0 && t.S != ts[0].S {
				same = false
			}
			ts = append(ts, t)
		}
		if same {
			res = ts[0]
		} else {
			acc := ts[len(ts)-1]
			for i := len(ts) - 2; i >= 0; i-- {
				acc = tIte(s.conds[i], ts[i], acc)
			}
			res = s.vc.defineAlways(key+"!m", acc)
		}
	}
	s.m[key] = res
	return res
}

// getOpt is get for keys that may be absent everywhere (value-seq versions).
func (s *State) getOpt(key string, dflt Term) Term {
	s.vc.compSrt[key] = dflt.Sort
	if t, ok := s.m[key]; ok {
		return t
	}
	var res Term
	switch s.kind {
	case stEntry:
		return dflt
	case stSeq:
		res = s.parent.getOpt(key, dflt)
	case stHavoc:
		if s.keys != nil && s.keys[key] {
			res = s.vc.declare(smtName(key)+"!"+s.id, dflt.Sort)
		} else {
			res = s.parent.getOpt(key, dflt)
		}
	case stMerge:
		var ts []Term
		same := true
		for _, p := range s.preds {
			t := p.getOpt(key, dflt)
			if len(ts) > 0 && t.S != ts[0].S {
				same = false
			}
			ts = append(ts, t)
		}
		if same {
			res = ts[0]
		} else {
			acc := ts[len(ts)-1]
			for i := len(ts) - 2; i >= 0; i-- {
				acc = tIte(s.conds[i], ts[i], acc)
			}
			res = s.vc.defineAlways(key+"!m", acc)
		}
	}
	s.m[key] = res
	return res
}

func mergeStates(vc *VC, preds []*State, conds []Term) *State {
	if len(preds) == 1 {
		return preds[0].derive()
	}
	n := &State{vc: vc, kind: stMerge, m: map[string]Term{}, preds: preds, conds: conds}
	// defers: must agree
	n.defers = preds[0].defers
	for _, p := range preds[1:] {
		if len(p.defers) != len(n.defers) {
			n.dunk = true
		} else {
			for i := range p.defers {
				if p.defers[i].call != n.defers[i].call {
					n.dunk = true
				}
			}
		}
		if p.dunk {
			n.dunk = true
		}
	}
	// now
	same := true
	for _, p := range preds[1:] {
		if p.now.S != preds[0].now.S {
			same = false
		}
	}
	if same {
		n.now = preds[0].now
	} else {
		acc := preds[len(preds)-1].now
		for i := len(preds) - 2; i >= 0; i-- {
			acc = tIte(conds[i], preds[i].now, acc)
		}
		n.now = vc.defineAlways("now!m", acc)
	}
	return n
}

// ---------------------------------------------------------------------------
// Addresses (Go-side representation of interior pointers)

type addrKind int

const (
	aObjField addrKind = iota // field of a heap struct object
	aCell                     // function-local alloc
	aDeref                    // *p for p a Ref to a non-struct
	aSubField                 // field of a struct value stored at Parent
	aSubIndex                 // element of an array value stored at Parent
	aSeqElem                  // element of a value sequence (SSA value SeqV)
	aHeapElem                 // element of a heap slice
	aGlobal
	aUnknown
)

type Addr struct {
	Kind   addrKind
	Parent *Addr
	Ref    Term
	Key    string // component key
	Field  string // accessor name for aSubField
	SSort  string // struct sort for aSubField
	Idx    Term
	SeqV   ssa.Value
	SeqKey string
	Seq    Term
	Sl     Term
	Sort   string // sort of the pointee
	Typ    types.Type
}

type Tuple []Value
type Value interface{}

// Closure is the Go-side representation of a MakeClosure value.
type Closure struct {
	Fn       *ssa.Function
	Bindings []Value
	Term     Term
}

var structSortRE = regexp.MustCompile(`S_([A-Za-z0-9]+)_([A-Za-z0-9]+)`)

// ensureSortsIn declares the struct sorts S_<pkg>_<Type> that a sort text written in a
// contract file (a ghost variable's sort) mentions, so that a function that never
// handles a value of that type itself can still refer to the ghost state.
func (vc *VC) ensureSortsIn(srt string) {
	for _, m := range structSortRE.FindAllStringSubmatch(srt, -1) {
		for _, p := range vc.w.prog.AllPackages() {
			if p.Pkg.Name() != m[1] {
				continue
			}
			if tn, ok := p.Pkg.Scope().Lookup(m[2]).(*types.TypeName); ok {
				vc.sorts.sortOf(tn.Type())
			}
		}
	}
}
