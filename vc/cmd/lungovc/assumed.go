package main

import (
	"sort"
	"strings"
)

// kindOfName recovers the obligation kind from an obligation name (for names that are
// only on record in Registry.Unproved, which keeps no kind).
func kindOfName(name string) string {
	i := strings.Index(name, "/")
	if i < 0 {
		return ""
	}
	rest := name[i+1:]
	for _, k := range []string{"post", "inv-init", "inv-pres", "variant", "callinv", "panics"} {
		if strings.HasPrefix(rest, k+"#") {
			return k
		}
	}
	switch {
	case strings.HasPrefix(rest, "safe/"):
		if j := strings.Index(rest, "@"); j > 0 {
			return rest[:j]
		}
	case strings.HasPrefix(rest, "pre@"):
		return "pre"
	case strings.HasPrefix(rest, "frame@"):
		return "frame"
	}
	if strings.HasPrefix(name, "lemma/") {
		return "lemma"
	}
	return ""
}

// assumedUndecided lists the contract-derived obligations (postconditions,
// invariants, ...) of verified callees that the functions of this check call and
// that did not discharge when the registry was last rebuilt: a caller is verified
// against the callee's contract whether or not the callee's own proof went
// through, so these are assumptions of this check that are not proved anywhere.
// Preconditions at the call sites of this check's own functions that do not
// discharge are listed too: what follows such a call is proved relative to them.
func assumedUndecided(w *World, reg *Registry, outcomes []*checkOutcome) []string {
	callees := map[string]bool{}
	out := map[string]bool{}
	for _, oc := range outcomes {
		if oc.o.vc == nil {
			continue
		}
		for a := range oc.o.vc.assumed {
			if c := w.contracts[a]; c != nil && !c.Extern && !c.Trusted {
				callees[a] = true
			}
		}
		if oc.o.Kind == "pre" && !oc.ok && !oc.reg {
			out["precondition not established at the call site: "+oc.o.Name] = true
		}
	}
	for name := range reg.Unproved {
		i := strings.Index(name, "/")
		if i < 0 || !callees[name[:i]] {
			continue
		}
		rest := name[i+1:]
		if strings.HasPrefix(rest, "post#") || strings.HasPrefix(rest, "inv-") || strings.HasPrefix(rest, "variant") {
			if strings.HasPrefix(rest, "post#wf") {
				continue
			}
			out["callee obligation undecided: "+name] = true
		}
	}
	var l []string
	for k := range out {
		l = append(l, k)
	}
	sort.Strings(l)
	if len(l) > 60 {
		l = append(l[:60], "...")
	}
	return l
}
