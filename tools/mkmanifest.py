#!/usr/bin/env python3
"""Regenerates /verif/MANIFEST.json from tools/claims.json (kept by hand)."""
import json, os
here = os.path.dirname(os.path.abspath(__file__))
root = os.path.dirname(here)
claims = json.load(open(os.path.join(here, "claims.json")))
# hook commits: everything committed to /repo after the pinned snapshot that is not a "fix:" commit
import subprocess
log = subprocess.run(["git", "-C", "/repo", "log", "--reverse", "--format=%H %s", "f430c3d..HEAD"], capture_output=True, text=True).stdout
claims["source_commits"] = [l.split()[0] for l in log.splitlines() if l and not l.split(" ", 1)[1].startswith("fix:")]
props = [json.loads(l)["id"] for l in open(os.path.join(root, "properties.jsonl"))]
checks = []
for pid in props:
    c = claims["claimed"].get(pid)
    if not c:
        continue
    checks.append({
        "property_id": pid,
        "quick_cmd": "./check %s quick" % pid,
        "thorough_cmd": "./check %s thorough" % pid,
        "evidence_file": "/verif/evidence/%s.json" % pid,
        "replay_cmd_template": "./check --replay {path}",
        "engine": "lungovc",
        "level_claimed": {"category": "proof", "text": c["text"], "design_ref": c.get("design_ref", "DESIGN.md section 4")},
        "level_note": c["note"],
        "technique": c.get("technique", "contract-based deductive verification: weakest-precondition VCs over go/ssa of the real functions, contracts in zz_contracts_verif.go, discharged by z3/cvc5"),
    })
na = [{"property_id": p, "reason": claims["not_applicable"].get(p, "not claimed: the contracts and registered obligations for this property have not been built yet (its design is in DESIGN.md section 4); no check is registered and nothing is asserted about it")} for p in props if p not in claims["claimed"]]
m = {
    "version": 1,
    "setup_cmd": "./setup.sh",
    "hooks": {
        "guard": "verif",
        "enable": "go build -tags verif: the only additions are comment-only contract files zz_contracts_verif.go (//go:build verif); the VC generator loads /repo with -tags=verif",
        "baseline_off_cmd": "cd /repo && export PATH=/opt/veriftools/go1.26.8/bin:$PATH GOFLAGS=-mod=mod GOPROXY=off GOSUMDB=off GOTOOLCHAIN=local && go test -json -vet=off -count=1 -timeout 25m ./bsonkit/... ./dbkit/...",
        "source_commits": claims.get("source_commits", []),
        "add_only": True,
    },
    "engines": [{"name": "lungovc", "path": "/verif/vc", "serves_properties": sorted(claims["claimed"].keys()),
                 "kind_free_text": "self-written verification-condition generator (Go, go/packages + go/ssa from x/tools v0.50.0) with contracts kept as structured comments in /repo; obligations discharged by z3 5.1.0, z3 4.8.12 and cvc5 1.0.3"}],
    "checks": checks,
    "notes": claims.get("notes", ""),
    "not_applicable": na,
}
json.dump(m, open(os.path.join(root, "MANIFEST.json"), "w"), indent=1)
print("checks:", [c["property_id"] for c in checks])
